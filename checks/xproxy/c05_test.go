package xproxy

// C05 Store pruning never skips a store that holds matching data.
//
// Domain: 1..5 stores, each with 0..3 external label sets (names e, f; a real TSDBStore has exactly
// one), an advertised [mint,maxt] and series = stored labels (names a, b, optionally a stored label
// that is an external label name of some *other* label set) extended by one of the store's label
// sets, all samples inside the advertised range. Half of the stores are real store.TSDBStore
// instances over an in-memory TSDBReader, the others are fake stores that answer by brute force.
// Optional proxy selector labels (carried by every store) and optional TSDBSelector relabel config.
// Requests: >=1 matcher on a stored-only label name plus 0..2 matchers of any type (=, !=, =~, !~,
// empty values, absent names) on stored or external names; time range built from store bounds and
// sample times (overlapping, touching, outside).
// Oracle: brute force over all stores' series (labels.Matcher.Matches on the final label set, >=1
// sample inside [mint,maxt], label set kept by the relabel config): every such series must be in
// the proxy's answer with the chunks that hold the in-range samples, and a store that received no
// Series call must have an empty brute-force answer. Over-selection is allowed.

import (
	"context"
	"fmt"
	"regexp"
	"sort"
	"strings"
	"sync"
	"testing"

	"github.com/prometheus/common/model"
	"github.com/prometheus/prometheus/model/labels"
	"github.com/prometheus/prometheus/model/relabel"
	"github.com/prometheus/prometheus/storage"
	"github.com/prometheus/prometheus/tsdb/chunkenc"
	"github.com/prometheus/prometheus/tsdb/chunks"
	"github.com/prometheus/prometheus/util/annotations"
	"go.uber.org/atomic"
	"google.golang.org/grpc"
	"google.golang.org/grpc/codes"
	"google.golang.org/grpc/status"
	"pgregory.net/rapid"

	"github.com/thanos-io/thanos/pkg/component"
	"github.com/thanos-io/thanos/pkg/info/infopb"
	"github.com/thanos-io/thanos/pkg/store"
	"github.com/thanos-io/thanos/pkg/store/storepb"
	"github.com/thanos-io/thanos/verifx/kit"
)

// ---------------------------------------------------------------------------------------------
// F-memdb: an in-memory store.TSDBReader

type memSeries struct {
	lset   labels.Labels
	chunks []*chunkSpec
}

type memDB struct {
	start  int64
	series []memSeries
}

func (d *memDB) StartTime() (int64, error) { return d.start, nil }
func (d *memDB) ChunkQuerier(mint, maxt int64) (storage.ChunkQuerier, error) {
	return &memQuerier{db: d, mint: mint, maxt: maxt}, nil
}

type memQuerier struct {
	db         *memDB
	mint, maxt int64
}

func (q *memQuerier) LabelValues(context.Context, string, *storage.LabelHints, ...*labels.Matcher) ([]string, annotations.Annotations, error) {
	return nil, nil, nil
}
func (q *memQuerier) LabelNames(context.Context, *storage.LabelHints, ...*labels.Matcher) ([]string, annotations.Annotations, error) {
	return nil, nil, nil
}
func (q *memQuerier) Close() error { return nil }

func (q *memQuerier) Select(_ context.Context, _ bool, _ *storage.SelectHints, ms ...*labels.Matcher) storage.ChunkSeriesSet {
	var out []storage.ChunkSeries
	for _, s := range q.db.series {
		ok := true
		for _, m := range ms {
			if !m.Matches(s.lset.Get(m.Name)) {
				ok = false
				break
			}
		}
		if !ok {
			continue
		}
		var cs []*chunkSpec
		for _, c := range s.chunks {
			if c.maxt >= q.mint && c.mint <= q.maxt {
				cs = append(cs, c)
			}
		}
		if len(cs) > 0 {
			out = append(out, &memChunkSeries{lset: s.lset, chunks: cs})
		}
	}
	sort.SliceStable(out, func(i, j int) bool { return labels.Compare(out[i].Labels(), out[j].Labels()) < 0 })
	return &memSeriesSet{series: out, i: -1}
}

type memSeriesSet struct {
	series []storage.ChunkSeries
	i      int
}

func (s *memSeriesSet) Next() bool                        { s.i++; return s.i < len(s.series) }
func (s *memSeriesSet) At() storage.ChunkSeries           { return s.series[s.i] }
func (s *memSeriesSet) Err() error                        { return nil }
func (s *memSeriesSet) Warnings() annotations.Annotations { return nil }

type memChunkSeries struct {
	lset   labels.Labels
	chunks []*chunkSpec
}

func (s *memChunkSeries) Labels() labels.Labels { return s.lset }
func (s *memChunkSeries) Iterator(chunks.Iterator) chunks.Iterator {
	return &memChunkIter{chunks: s.chunks, i: -1}
}

type memChunkIter struct {
	chunks []*chunkSpec
	i      int
}

func (it *memChunkIter) Next() bool { it.i++; return it.i < len(it.chunks) }
func (it *memChunkIter) Err() error { return nil }
func (it *memChunkIter) At() chunks.Meta {
	c := it.chunks[it.i]
	ch, err := chunkenc.FromData(chunkenc.EncXOR, c.data[fRaw])
	if err != nil {
		panic(err)
	}
	return chunks.Meta{Chunk: ch, MinTime: c.mint, MaxTime: c.maxt}
}

// tsdbClient presents a real TSDBStore as a store.Client (as the endpoint set does for a sidecar /
// receiver) and counts the Series calls it receives.
type tsdbClient struct {
	storepb.StoreClient
	name       string
	ext        labels.Labels
	mint, maxt int64

	mu    sync.Mutex
	calls int
}

func (c *tsdbClient) Series(ctx context.Context, req *storepb.SeriesRequest, opts ...grpc.CallOption) (storepb.Store_SeriesClient, error) {
	c.mu.Lock()
	c.calls++
	c.mu.Unlock()
	return c.StoreClient.Series(ctx, req, opts...)
}
func (c *tsdbClient) LabelSets() []labels.Labels {
	if c.ext.IsEmpty() {
		return nil
	}
	return []labels.Labels{c.ext}
}
func (c *tsdbClient) TimeRange() (int64, int64)          { return c.mint, c.maxt }
func (c *tsdbClient) TSDBInfos() []infopb.TSDBInfo       { return nil }
func (c *tsdbClient) SupportsSharding() bool             { return true }
func (c *tsdbClient) SupportsWithoutReplicaLabels() bool { return true }
func (c *tsdbClient) String() string                     { return c.name }
func (c *tsdbClient) Addr() (string, bool)               { return c.name + ":10901", false }
func (c *tsdbClient) Matches([]*labels.Matcher) bool     { return true }

// ---------------------------------------------------------------------------------------------
// scenario

type c05Series struct {
	final  labels.Labels
	stored labels.Labels
	lset   int // index into the store's label sets, -1 = the store has none
	chunks []*chunkSpec
}

type c05Store struct {
	resetCalls func()
	name       string
	real       bool
	lsets      []labels.Labels
	mint, maxt int64
	series     []c05Series
	client     store.Client
	numCalls   func() int
}

type c05Matcher struct {
	t    labels.MatchType
	name string
	val  string
}

func (m c05Matcher) String() string { return fmt.Sprintf("%s%s%q", m.name, m.t, m.val) }

type c05Relabel struct {
	action relabel.Action
	source []string
	regex  string
}

type c05Scenario struct {
	// pre: queries sent through the same proxy and store clients BEFORE the main one (a store's
	// advertised label sets and time range are state that must survive earlier pruning decisions)
	pre        [][]c05Matcher
	stores     []*c05Store
	selector   labels.Labels
	relabel    *c05Relabel
	matchers   []c05Matcher
	qmin, qmax int64
	strategy   store.RetrievalStrategy
	collision  bool // some series has a stored label whose name is an external label name elsewhere
	metaValues bool // some external label value contains a regular-expression metacharacter
}

// Known findings on the TSDBSelector path (ProxyStore adds MatchersForLabelSets(<selected label sets of
// all stores>) to the request of every store):
//   - the label values are joined into a regular expression without quoting, so a selected label set
//     whose value contains a metacharacter is not matched by its own matcher (or the regex is invalid);
//   - the matchers of all stores are applied as one conjunction to every store, so a series whose
//     *stored* label is named like an external label of another selected label set is filtered out.
const (
	sigC05Escape      = "C05/labelset-matcher-values-not-escaped"
	sigC05Conjunction = "C05/labelset-matchers-hit-stored-labels"
)

func (sc *c05Scenario) signature() string {
	var s []string
	if sc.relabel != nil && sc.metaValues {
		s = append(s, sigC05Escape)
	}
	if sc.relabel != nil && sc.collision {
		s = append(s, sigC05Conjunction)
	}
	if len(s) == 0 {
		return ""
	}
	return " (candidate signature " + strings.Join(s, " or ") + ")"
}

func (sc *c05Scenario) String() string {
	var sb strings.Builder
	fmt.Fprintf(&sb, "query=%v [%d,%d] %s", sc.matchers, sc.qmin, sc.qmax, sc.strategy)
	if !sc.selector.IsEmpty() {
		fmt.Fprintf(&sb, " selector=%s", sc.selector)
	}
	if sc.relabel != nil {
		fmt.Fprintf(&sb, " relabel=%s(%v ~ %q)", sc.relabel.action, sc.relabel.source, sc.relabel.regex)
	}
	for _, st := range sc.stores {
		kind := "fake"
		if st.real {
			kind = "tsdb"
		}
		fmt.Fprintf(&sb, " | %s/%s lsets=%v range=[%d,%d]:", st.name, kind, st.lsets, st.mint, st.maxt)
		for _, s := range st.series {
			fmt.Fprintf(&sb, " %s@", s.final)
			for _, c := range s.chunks {
				sb.WriteByte('[')
				for i, x := range c.ss {
					if i > 0 {
						sb.WriteByte(' ')
					}
					fmt.Fprint(&sb, x.t)
				}
				sb.WriteByte(']')
			}
		}
	}
	return sb.String()
}

// build wires the clients (fake stores answering by brute force, real TSDBStores over memDB).
func (sc *c05Scenario) build() {
	for _, st := range sc.stores {
		st := st
		if st.real {
			db := &memDB{start: st.mint}
			for _, s := range st.series {
				db.series = append(db.series, memSeries{lset: s.stored, chunks: s.chunks})
			}
			ext := labels.EmptyLabels()
			if len(st.lsets) > 0 {
				ext = st.lsets[0]
			}
			ts := store.NewTSDBStore(nil, db, component.Receive, ext)
			cl := &tsdbClient{StoreClient: storepb.ServerAsClient(ts, atomic.Bool{}), name: st.name, ext: ext, mint: st.mint, maxt: st.maxt}
			st.client = cl
			st.numCalls = func() int { cl.mu.Lock(); defer cl.mu.Unlock(); return cl.calls }
			st.resetCalls = func() { cl.mu.Lock(); cl.calls = 0; cl.mu.Unlock() }
			continue
		}
		fs := &fakeStore{name: st.name, lsets: append([]labels.Labels(nil), st.lsets...), mint: st.mint, maxt: st.maxt, withoutReplica: true, sharding: true}
		fs.validate = func(req *storepb.SeriesRequest) error {
			if _, err := storepb.MatchersToPromMatchers(req.Matchers...); err != nil {
				return status.Error(codes.InvalidArgument, err.Error())
			}
			return nil
		}
		fs.frames = func(req *storepb.SeriesRequest) []frameSpec {
			ms, err := storepb.MatchersToPromMatchers(req.Matchers...)
			if err != nil {
				panic(err) // rejected by validate before
			}
			var rows []serSpec
			for _, s := range st.series {
				ok := true
				for _, m := range ms {
					if !m.Matches(s.final.Get(m.Name)) {
						ok = false
						break
					}
				}
				if !ok {
					continue
				}
				var cs []*chunkSpec
				for _, c := range s.chunks {
					if c.maxt >= req.MinTime && c.mint <= req.MaxTime {
						cs = append(cs, c)
					}
				}
				if len(cs) > 0 {
					rows = append(rows, serSpec{lset: s.final, chunks: cs})
				}
			}
			sort.SliceStable(rows, func(i, j int) bool { return labels.Compare(rows[i].lset, rows[j].lset) < 0 })
			fr := make([]frameSpec, len(rows))
			for i := range rows {
				fr[i] = frameSpec{series: rows[i : i+1]}
			}
			return fr
		}
		st.client = fs
		st.numCalls = fs.numCalls
		st.resetCalls = fs.reset
	}
}

func (sc *c05Scenario) request() storepb.SeriesRequest {
	req := storepb.SeriesRequest{MinTime: sc.qmin, MaxTime: sc.qmax}
	for _, m := range sc.matchers {
		t := map[labels.MatchType]storepb.LabelMatcher_Type{
			labels.MatchEqual: storepb.LabelMatcher_EQ, labels.MatchNotEqual: storepb.LabelMatcher_NEQ,
			labels.MatchRegexp: storepb.LabelMatcher_RE, labels.MatchNotRegexp: storepb.LabelMatcher_NRE}[m.t]
		req.Matchers = append(req.Matchers, storepb.LabelMatcher{Type: t, Name: m.name, Value: m.val})
	}
	return req
}

// relabelKeeps is the reference for a single keep/drop relabel rule (anchored regex on the
// separator-joined source label values, as documented for Prometheus relabelling).
func (r *c05Relabel) keeps(l labels.Labels) bool {
	vals := make([]string, len(r.source))
	for i, n := range r.source {
		vals[i] = l.Get(n)
	}
	m := regexp.MustCompile("^(?s:" + r.regex + ")$").MatchString(strings.Join(vals, ";"))
	if r.action == relabel.Keep {
		return m
	}
	return !m
}

// expected computes the brute-force answer per store: final label-set key -> in-range chunks.
func (sc *c05Scenario) expected() ([]map[string]map[string]*chunkSpec, map[string]labels.Labels) {
	ms := make([]*labels.Matcher, len(sc.matchers))
	for i, m := range sc.matchers {
		ms[i] = labels.MustNewMatcher(m.t, m.name, m.val)
	}
	lsets := map[string]labels.Labels{}
	out := make([]map[string]map[string]*chunkSpec, len(sc.stores))
	for i, st := range sc.stores {
		out[i] = map[string]map[string]*chunkSpec{}
		for _, s := range st.series {
			if sc.relabel != nil && s.lset >= 0 && !sc.relabel.keeps(st.lsets[s.lset]) {
				continue // deselected by configuration, not by pruning
			}
			ok := true
			for _, m := range ms {
				if !m.Matches(s.final.Get(m.Name)) {
					ok = false
					break
				}
			}
			if !ok {
				continue
			}
			for _, c := range s.chunks {
				in := false
				for _, x := range c.ss {
					if x.t >= sc.qmin && x.t <= sc.qmax {
						in = true
						break
					}
				}
				if !in {
					continue
				}
				k := lsetKey(s.final)
				lsets[k] = s.final
				if out[i][k] == nil {
					out[i][k] = map[string]*chunkSpec{}
				}
				out[i][k][c.key] = c
			}
		}
	}
	return out, lsets
}

// c05Check runs the scenario; returns a violation text or "", plus classes and the non-trivial flag.
func c05Check(sc *c05Scenario) (string, bool, []string) {
	sc.build()
	main := sc.matchers
	for i, q := range sc.pre {
		sc.matchers = q
		msg, _, _ := c05CheckOnce(sc)
		sc.matchers = main
		if msg != "" {
			return fmt.Sprintf("earlier query %d %v: %s", i, q, msg), false, nil
		}
		for _, st := range sc.stores {
			st.resetCalls()
		}
	}
	msg, nt, classes := c05CheckOnce(sc)
	if len(sc.pre) > 0 {
		classes = append(classes, "after-earlier-queries")
		if msg != "" {
			msg = fmt.Sprintf("after %d earlier queries %v on the same stores: %s", len(sc.pre), sc.pre, msg)
		}
	}
	return msg, nt, classes
}

func c05CheckOnce(sc *c05Scenario) (string, bool, []string) {
	cfg := proxyCfg{strategy: sc.strategy, lazyBuf: 2, selector: sc.selector}
	if sc.relabel != nil {
		names := make(model.LabelNames, len(sc.relabel.source))
		for i, n := range sc.relabel.source {
			names[i] = model.LabelName(n)
		}
		cfg.tsdbSel = store.NewTSDBSelector([]*relabel.Config{{
			SourceLabels: names, Separator: ";", Regex: relabel.MustNewRegexp(sc.relabel.regex), Action: sc.relabel.action,
		}})
	}
	clients := make([]store.Client, len(sc.stores))
	for i, st := range sc.stores {
		clients[i] = st.client
	}
	out, err := runProxy(clients, cfg, sc.request())
	if err != nil {
		return "Series returned an error: " + err.Error(), false, nil
	}
	if len(out.warnings) > 0 {
		return fmt.Sprintf("Series returned warnings although no store fails: %q", out.warnings), false, nil
	}
	got := map[string]map[string]bool{}
	for _, s := range out.series {
		k := lsetKey(s.lset)
		if got[k] == nil {
			got[k] = map[string]bool{}
		}
		for _, c := range s.chunks {
			got[k][keyOfProto(c)] = true
		}
	}
	exp, lsets := sc.expected()
	var classes []string
	pruned := 0
	for i, st := range sc.stores {
		n := st.numCalls()
		if n > 1 {
			return fmt.Sprintf("harness: store %s received %d Series calls", st.name, n), false, nil
		}
		timeDisjoint := sc.qmin > st.maxt || sc.qmax < st.mint
		if n == 0 {
			pruned++
			if timeDisjoint {
				classes = append(classes, "store-pruned-time-disjoint")
			} else {
				classes = append(classes, "store-pruned-by-labels-or-selector")
			}
			if len(exp[i]) > 0 {
				k := sortedKeys(exp[i])[0]
				return fmt.Sprintf("store %s (label sets %v, range [%d,%d]) was skipped but holds matching series %s", st.name, st.lsets, st.mint, st.maxt, lsets[k]), false, nil
			}
			continue
		}
		if len(exp[i]) > 0 {
			classes = append(classes, "store-queried-needed")
		} else {
			classes = append(classes, "store-queried-not-needed")
		}
		if sc.qmin == st.maxt || sc.qmax == st.mint {
			classes = append(classes, "query-touches-store-range")
		}
		for _, k := range sortedKeys(exp[i]) {
			for _, ck := range sortedKeys(exp[i][k]) {
				if !got[k][ck] {
					return fmt.Sprintf("series %s chunk %s of store %s matches the query but is missing from the answer", lsets[k], exp[i][k][ck], st.name), false, nil
				}
			}
		}
	}
	if pruned == len(sc.stores) {
		classes = append(classes, "all-stores-pruned")
	}
	total := 0
	for i := range exp {
		total += len(exp[i])
	}
	if total == 0 {
		classes = append(classes, "expected-empty")
	} else {
		classes = append(classes, "expected-nonempty")
	}
	return "", pruned >= 1, classes
}

// ---------------------------------------------------------------------------------------------
// generator

var (
	c05Vals     = []string{"0", "1", "2"}
	c05EqVals   = []string{"", "0", "1", "2", "9"}
	c05ReVals   = []string{"", "0|1", "1|2", ".+", ".*", "0|", "[12]", "9", "0"}
	c05ExtNames = []string{"e", "f"}
	// external label values with regular-expression metacharacters (only drawn under a TSDBSelector)
	c05MetaVals = []string{"0", "1", "a+b", "x|y", "1.5", "eu(1"}
)

func c05GenLset(rt *rapid.T, must labels.Labels, allowEmpty bool, vals []string) labels.Labels {
	b := labels.NewBuilder(must)
	n := 0
	for _, name := range c05ExtNames {
		if rapid.IntRange(0, 9).Draw(rt, "ext_"+name) < 6 {
			b.Set(name, rapid.SampledFrom(vals).Draw(rt, "extv_"+name))
			n++
		}
	}
	if n == 0 && !allowEmpty {
		name := rapid.SampledFrom(c05ExtNames).Draw(rt, "extForced")
		b.Set(name, rapid.SampledFrom(vals).Draw(rt, "extvForced"))
	}
	return b.Labels()
}

// c05GenScenario draws a scenario; noEscape / noConjunction exclude the classes of the two known
// findings by construction (excluded reports which exclusions changed the draw).
func c05GenScenario(rt *rapid.T, noEscape, noConjunction bool) (sc *c05Scenario, excluded []string) {
	sc = &c05Scenario{selector: labels.EmptyLabels()}
	if rapid.IntRange(0, 3).Draw(rt, "selectorLabels") == 0 {
		sc.selector = labels.FromStrings("g", "1")
	}
	if rapid.IntRange(0, 3).Draw(rt, "relabel") == 0 {
		r := &c05Relabel{action: relabel.Keep}
		if rapid.Bool().Draw(rt, "drop") {
			r.action = relabel.Drop
		}
		r.source = rapid.SampledFrom([][]string{{"e"}, {"f"}, {"e", "f"}}).Draw(rt, "relabelSource")
		if len(r.source) == 1 {
			r.regex = rapid.SampledFrom([]string{"0", "0|1", "1|2", "", ".+", "2|"}).Draw(rt, "relabelRegex")
		} else {
			r.regex = rapid.SampledFrom([]string{"0;.*", ".*;1", "[01];[01]", ";.*", "1;|;2"}).Draw(rt, "relabelRegex2")
		}
		sc.relabel = r
	}
	extVals := c05Vals
	if sc.relabel != nil && rapid.IntRange(0, 2).Draw(rt, "metaValues") == 0 {
		if noEscape {
			excluded = append(excluded, sigC05Escape)
		} else {
			extVals = c05MetaVals
		}
	}
	sc.strategy = store.EagerRetrieval
	if rapid.Bool().Draw(rt, "lazy") {
		sc.strategy = store.LazyRetrieval
	}
	// Under a relabel config or selector labels every store must advertise >=1 label set.
	needLset := sc.relabel != nil || !sc.selector.IsEmpty()
	var times []int64
	nst := rapid.IntRange(1, 5).Draw(rt, "stores")
	for si := 0; si < nst; si++ {
		st := &c05Store{name: fmt.Sprintf("store-%d", si), real: rapid.Bool().Draw(rt, "realTSDBStore")}
		if st.real {
			l := c05GenLset(rt, sc.selector, !needLset, extVals)
			if !l.IsEmpty() {
				st.lsets = []labels.Labels{l}
			}
		} else {
			lo := 0
			if needLset {
				lo = 1
			}
			n := rapid.IntRange(lo, 3).Draw(rt, "labelSets")
			seen := map[string]bool{}
			for i := 0; i < n; i++ {
				l := c05GenLset(rt, sc.selector, false, extVals)
				if !seen[lsetKey(l)] {
					seen[lsetKey(l)] = true
					st.lsets = append(st.lsets, l)
				}
			}
		}
		st.mint = int64(rapid.IntRange(0, 80).Draw(rt, "storeMin"))
		st.maxt = st.mint + int64(rapid.IntRange(0, 40).Draw(rt, "storeLen"))
		times = append(times, st.mint, st.maxt)
		nser := rapid.IntRange(0, 4).Draw(rt, "series")
		seen := map[string]bool{}
		for i := 0; i < nser; i++ {
			s := c05Series{lset: -1}
			ext := labels.EmptyLabels()
			if len(st.lsets) > 0 {
				s.lset = rapid.IntRange(0, len(st.lsets)-1).Draw(rt, "lsetOf")
				ext = st.lsets[s.lset]
			}
			b := labels.NewBuilder(labels.EmptyLabels())
			switch rapid.IntRange(0, 2).Draw(rt, "storedShape") {
			case 0:
				b.Set("a", rapid.SampledFrom(c05Vals).Draw(rt, "a"))
			case 1:
				b.Set("b", rapid.SampledFrom(c05Vals).Draw(rt, "b"))
			default:
				b.Set("a", rapid.SampledFrom(c05Vals).Draw(rt, "a"))
				b.Set("b", rapid.SampledFrom(c05Vals).Draw(rt, "b"))
			}
			if rapid.IntRange(0, 5).Draw(rt, "collision") == 0 {
				// a stored label whose name is an external label name elsewhere (not in this label set)
				name := rapid.SampledFrom(c05ExtNames).Draw(rt, "collName")
				if sc.relabel != nil && noConjunction {
					if !ext.Has(name) {
						excluded = append(excluded, sigC05Conjunction)
					}
				} else if !ext.Has(name) {
					b.Set(name, rapid.SampledFrom(c05Vals).Draw(rt, "collVal"))
					sc.collision = true
				}
			}
			s.stored = b.Labels()
			fb := labels.NewBuilder(s.stored)
			ext.Range(func(l labels.Label) { fb.Set(l.Name, l.Value) })
			s.final = fb.Labels()
			key := lsetKey(s.final)
			if st.real {
				key = lsetKey(s.stored)
			}
			if seen[key] {
				continue
			}
			seen[key] = true
			// 1..2 chunks with 1..3 samples inside the advertised range, biased to its ends
			span := int(st.maxt - st.mint)
			pick := func(label string, lo int) int {
				switch rapid.IntRange(0, 5).Draw(rt, label+"Kind") {
				case 0:
					return lo
				case 1:
					return span
				}
				return rapid.IntRange(lo, span).Draw(rt, label)
			}
			var offs []int
			for j, n := 0, rapid.IntRange(1, 4).Draw(rt, "samples"); j < n; j++ {
				offs = append(offs, pick("off", 0))
			}
			sort.Ints(offs)
			var ss []smpl
			for _, o := range offs {
				t := st.mint + int64(o)
				if len(ss) > 0 && ss[len(ss)-1].t == t {
					continue
				}
				ss = append(ss, smpl{t, float64(si*100 + i)})
				times = append(times, t)
			}
			cut := len(ss)
			if len(ss) >= 2 && rapid.Bool().Draw(rt, "twoChunks") {
				cut = rapid.IntRange(1, len(ss)-1).Draw(rt, "cut")
			}
			s.chunks = append(s.chunks, newRawChunk(ss[:cut]))
			if cut < len(ss) {
				s.chunks = append(s.chunks, newRawChunk(ss[cut:]))
			}
			st.series = append(st.series, s)
		}
		sc.stores = append(sc.stores, st)
	}

	// matchers: one on a stored-only name (never an external label of any store), 0..2 more anywhere
	genMatcher := func(names []string, label string) c05Matcher {
		m := c05Matcher{name: rapid.SampledFrom(names).Draw(rt, label+"Name")}
		m.t = rapid.SampledFrom([]labels.MatchType{labels.MatchEqual, labels.MatchNotEqual, labels.MatchRegexp, labels.MatchNotRegexp}).Draw(rt, label+"Type")
		if m.t == labels.MatchEqual || m.t == labels.MatchNotEqual {
			m.val = rapid.SampledFrom(c05EqVals).Draw(rt, label+"Val")
		} else {
			m.val = rapid.SampledFrom(c05ReVals).Draw(rt, label+"Re")
		}
		return m
	}
	sc.matchers = append(sc.matchers, genMatcher([]string{"a", "b"}, "m0"))
	for i, n := 0, rapid.IntRange(0, 2).Draw(rt, "extraMatchers"); i < n; i++ {
		sc.matchers = append(sc.matchers, genMatcher([]string{"a", "b", "e", "e", "f", "f", "g", "x"}, fmt.Sprintf("m%d", i+1)))
	}
	if rapid.Bool().Draw(rt, "shuffleMatchers") {
		sc.matchers[0], sc.matchers[len(sc.matchers)-1] = sc.matchers[len(sc.matchers)-1], sc.matchers[0]
	}
	for i, n := 0, rapid.SampledFrom([]int{0, 0, 1, 2, 3}).Draw(rt, "earlierQueries"); i < n; i++ {
		q := []c05Matcher{genMatcher([]string{"a", "b"}, fmt.Sprintf("p%dm0", i))}
		for j, k := 0, rapid.IntRange(0, 2).Draw(rt, "preExtra"); j < k; j++ {
			q = append(q, genMatcher([]string{"e", "e", "f", "f", "g", "a"}, fmt.Sprintf("p%dm%d", i, j+1)))
		}
		sc.pre = append(sc.pre, q)
	}

	// query range from interesting instants
	pickT := func(label string) int64 {
		t := rapid.SampledFrom(times).Draw(rt, label)
		return t + int64(rapid.SampledFrom([]int{0, 0, 0, -1, 1}).Draw(rt, label+"Off"))
	}
	sc.qmin, sc.qmax = pickT("qmin"), pickT("qmax")
	if sc.qmin > sc.qmax {
		sc.qmin, sc.qmax = sc.qmax, sc.qmin
	}
	if rapid.IntRange(0, 9).Draw(rt, "wide") == 0 {
		sc.qmin, sc.qmax = -10, 200
	}
	for _, st := range sc.stores {
		for _, l := range st.lsets {
			l.Range(func(x labels.Label) {
				if strings.ContainsAny(x.Value, "+|(.") {
					sc.metaValues = true
				}
			})
		}
	}
	return sc, excluded
}

func TestVerifC05(t *testing.T) {
	rec := kit.For(t, "C05")
	known := kit.KnownFindings("C05")

	// Saved inputs. VERIF_N_c05fixed=0 skips them (used only for sensitivity experiments).
	if kit.Scale("c05fixed", 1, 1) > 0 {
		fixedStore := func(name string, real bool, lsets []labels.Labels, series ...c05Series) *c05Store {
			return &c05Store{name: name, real: real, lsets: lsets, mint: 0, maxt: 100, series: series}
		}
		ser := func(lset int, ext labels.Labels, kv ...string) c05Series {
			stored := labels.FromStrings(kv...)
			fb := labels.NewBuilder(stored)
			ext.Range(func(l labels.Label) { fb.Set(l.Name, l.Value) })
			return c05Series{lset: lset, stored: stored, final: fb.Labels(), chunks: []*chunkSpec{newRawChunk([]smpl{{10, 1}, {100, 2}})}}
		}
		keepAll := &c05Relabel{action: relabel.Keep, source: []string{"g"}, regex: ""}
		q := []c05Matcher{{labels.MatchEqual, "a", "1"}}
		e0, f1, eab, exy := labels.FromStrings("e", "0"), labels.FromStrings("f", "1"), labels.FromStrings("e", "a+b"), labels.FromStrings("e", "x|y")
		type fixed struct {
			name string
			sig  string
			sc   *c05Scenario
		}
		var still = map[string][]string{}
		for _, in := range []fixed{
			{"touching ranges, empty-value and negative matchers", "", &c05Scenario{
				stores: []*c05Store{
					fixedStore("s0", false, []labels.Labels{e0, f1}, ser(0, e0, "a", "1"), ser(1, f1, "a", "1", "b", "2")),
					fixedStore("s1", true, []labels.Labels{f1}, ser(0, f1, "a", "1", "b", "0"))},
				matchers: []c05Matcher{{labels.MatchEqual, "a", "1"}, {labels.MatchNotEqual, "e", "0"}, {labels.MatchRegexp, "x", ""}}, qmin: 100, qmax: 150}},
			{"selected label sets, one without the label name", "", &c05Scenario{
				stores:  []*c05Store{fixedStore("s0", false, []labels.Labels{e0, f1}, ser(0, e0, "a", "1"), ser(1, f1, "a", "1", "b", "2")), fixedStore("s1", true, []labels.Labels{e0}, ser(0, e0, "a", "1", "b", "7"))},
				relabel: keepAll, matchers: q, qmin: 0, qmax: 100}},
			{"selected label set {e=\"a+b\"} (fake store)", sigC05Escape, &c05Scenario{
				stores: []*c05Store{fixedStore("s0", false, []labels.Labels{eab}, ser(0, eab, "a", "1"))}, relabel: keepAll, matchers: q, qmin: 0, qmax: 100}},
			{"selected label set {e=\"x|y\"} (real TSDBStore)", sigC05Escape, &c05Scenario{
				stores: []*c05Store{fixedStore("s0", true, []labels.Labels{exy}, ser(0, exy, "a", "1"))}, relabel: keepAll, matchers: q, qmin: 0, qmax: 100}},
			{"store s1 {f=1} holds {a=1,e=5} while s0 advertises {e=0}", sigC05Conjunction, &c05Scenario{
				stores:  []*c05Store{fixedStore("s0", false, []labels.Labels{e0}, ser(0, e0, "a", "1")), fixedStore("s1", false, []labels.Labels{f1}, ser(0, f1, "a", "1", "e", "5"))},
				relabel: keepAll, matchers: q, qmin: 0, qmax: 100}},
		} {
			in.sc.selector, in.sc.strategy = labels.EmptyLabels(), store.EagerRetrieval
			msg, _, _ := c05Check(in.sc)
			if msg == "" {
				continue
			}
			if in.sig != "" && known[in.sig] {
				still[in.sig] = append(still[in.sig], in.name+": "+msg)
			} else {
				rec.Violation(t, "regression %q %s: %s\n%s", in.name, in.sig, msg, in.sc)
			}
		}
		for _, sig := range sortedKeys(still) {
			rec.Known(sig, "with --selector.relabel-config: "+strings.Join(still[sig], " || "))
		}
	}

	rec.Check(t, func(rt *rapid.T) {
		sc, excluded := c05GenScenario(rt, known[sigC05Escape], known[sigC05Conjunction])
		for i, sig := range excluded {
			if i == 0 || excluded[i-1] != sig {
				rec.Excluded(sig)
			}
		}
		msg, nt, classes := c05Check(sc)
		if msg != "" {
			rt.Fatalf("C05 violated%s: %s\n%s", sc.signature(), msg, sc)
		}
		if sc.metaValues {
			classes = append(classes, "ext-value-with-regex-metacharacter")
		}
		if sc.relabel != nil {
			classes = append(classes, "tsdb-selector-relabel")
		}
		if !sc.selector.IsEmpty() {
			classes = append(classes, "proxy-selector-labels")
		}
		if sc.collision {
			classes = append(classes, "stored-label-named-like-external")
		}
		for _, m := range sc.matchers {
			if m.name == "e" || m.name == "f" || m.name == "g" {
				neg := m.t == labels.MatchNotEqual || m.t == labels.MatchNotRegexp
				switch {
				case labels.MustNewMatcher(m.t, m.name, m.val).Matches(""):
					classes = append(classes, "ext-matcher-matching-empty")
				case neg:
					classes = append(classes, "ext-matcher-negative")
				default:
					classes = append(classes, "ext-matcher-positive")
				}
			}
		}
		for _, st := range sc.stores {
			if st.real {
				classes = append(classes, "real-tsdbstore")
			} else {
				classes = append(classes, fmt.Sprintf("fake-store-%d-labelsets", len(st.lsets)))
			}
		}
		rec.Case(sc.String(), nt, classes...)
	})
}
