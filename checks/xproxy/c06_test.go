package xproxy

// C06 Partial-response strategy is honoured under store failures (fault enumeration).
//
// Per generated C03-style scenario (2..4 fake stores, raw chunks) the following fault space is
// enumerated completely, each element under {WARN, ABORT} x {eager, lazy}:
//   (A) every assignment store -> {healthy, error from Series(), Recv error after k delivered frames
//       for every k in 0..frames} with at least one failing store;
//   (B) every store i stalling (no more frames until its stream context is cancelled) after every
//       k in 0..frames_i, combined with every subset of the other stores failing with an error at a
//       per-scenario drawn point.
// Oracle: ABORT => Series returns an error. WARN => nil error, for every failed store at least one
// warning that names it (store name or its injected error text), and every series of every healthy
// store present with all the chunks that store sent (C03 model restricted to healthy stores).
// The frame timeout is the injected fault of (B), never the oracle: healthy fakes ignore context
// cancellation, so a timer that fires late or early cannot turn a healthy store into a failed one.

import (
	"errors"
	"fmt"
	"strings"
	"testing"
	"time"

	"github.com/prometheus/prometheus/model/labels"
	"google.golang.org/grpc/codes"
	"google.golang.org/grpc/status"
	"pgregory.net/rapid"

	"github.com/thanos-io/thanos/pkg/store"
	"github.com/thanos-io/thanos/pkg/store/storepb"
	"github.com/thanos-io/thanos/verifx/kit"
)

const (
	c06StallTimeout = 4 * time.Millisecond
	c06LongTimeout  = 2 * time.Minute
)

type c06Mode struct {
	abort    bool
	strategy store.RetrievalStrategy
}

func (m c06Mode) String() string {
	s := "WARN"
	if m.abort {
		s = "ABORT"
	}
	return s + "/" + string(m.strategy)
}

var c06Modes = []c06Mode{
	{false, store.EagerRetrieval}, {false, store.LazyRetrieval},
	{true, store.EagerRetrieval}, {true, store.LazyRetrieval},
}

type c06Env struct {
	sc         *c03Scenario
	nframes    []int
	strip      map[string]struct{}
	lazyBuf    int
	batch      int64
	abortRepr  int  // how an abort request is expressed: 0 strategy=ABORT, 1 strategy=ABORT + deprecated PartialResponseDisabled (as the querier sends it), 2 only the deprecated flag
	statusErrs bool // injected errors are gRPC status errors
	// what every store sends, by replica-stripped label set
	sent []map[string]map[string]*chunkSpec
	lset map[string]labels.Labels
}

func c06NewEnv(sc *c03Scenario, lazyBuf int, batch int64, abortRepr int, statusErrs bool) *c06Env {
	e := &c06Env{sc: sc, lazyBuf: lazyBuf, batch: batch, abortRepr: abortRepr, statusErrs: statusErrs, strip: map[string]struct{}{}, lset: map[string]labels.Labels{}}
	for _, r := range sc.replica {
		e.strip[r] = struct{}{}
	}
	for _, st := range sc.stores {
		fr := st.frames(&sc.req)
		e.nframes = append(e.nframes, len(fr))
		m := map[string]map[string]*chunkSpec{}
		for _, f := range fr {
			for _, s := range f.series {
				l := stripLabels(s.lset, e.strip)
				k := lsetKey(l)
				e.lset[k] = l
				if m[k] == nil {
					m[k] = map[string]*chunkSpec{}
				}
				for _, c := range s.chunks {
					m[k][c.key] = c
				}
			}
		}
		e.sent = append(e.sent, m)
	}
	return e
}

func (e *c06Env) injectedErr(i int) error {
	msg := fmt.Sprintf("injected-fault-of-store-%d", i)
	if e.statusErrs {
		return status.Error(codes.Unavailable, msg)
	}
	return errors.New(msg)
}

// run applies one fault assignment under one mode and checks the oracle; "" = holds.
func (e *c06Env) run(faults []faultSpec, mode c06Mode) string {
	timeout := c06LongTimeout
	for i, st := range e.sc.stores {
		st.reset()
		st.fault = faults[i]
		if faults[i].kind == faultStall {
			timeout = c06StallTimeout
		}
	}
	cfg := proxyCfg{strategy: mode.strategy, lazyBuf: e.lazyBuf, batch: e.batch, timeout: timeout}
	if mode.abort {
		if e.abortRepr != 2 {
			cfg.prs = storepb.PartialResponseStrategy_ABORT
		}
		cfg.prDisable = e.abortRepr >= 1
	}
	out, err := runProxy(e.sc.clients(), cfg, e.sc.req)
	for _, st := range e.sc.stores {
		st.mu.Lock()
		he := st.harnessErrs
		st.mu.Unlock()
		if len(he) > 0 {
			return "harness: " + strings.Join(he, "; ")
		}
		if n := st.numCalls(); n > 1 {
			return fmt.Sprintf("harness: store %s received %d Series calls", st.name, n)
		}
	}
	if mode.abort {
		if err == nil {
			return fmt.Sprintf("abort strategy: Series returned nil although a store failed (warnings sent: %q)", out.warnings)
		}
		return ""
	}
	if err != nil {
		return "warn strategy: Series returned an error: " + err.Error()
	}
	for i, f := range faults {
		if f.kind == faultNone {
			continue
		}
		named := false
		for _, w := range out.warnings {
			if strings.Contains(w, e.sc.stores[i].name) || strings.Contains(w, fmt.Sprintf("injected-fault-of-store-%d", i)) {
				named = true
				break
			}
		}
		if !named {
			return fmt.Sprintf("warn strategy: no warning names the failed store %s (%s); warnings: %q", e.sc.stores[i].name, f, out.warnings)
		}
	}
	got := map[string]map[string]bool{}
	for _, s := range out.series {
		k := lsetKey(s.lset)
		if got[k] == nil {
			got[k] = map[string]bool{}
		}
		for _, c := range s.chunks {
			got[k][keyOfProto(c)] = true
		}
	}
	for i, f := range faults {
		if f.kind != faultNone {
			continue
		}
		for _, k := range sortedKeys(e.sent[i]) {
			if got[k] == nil {
				return fmt.Sprintf("warn strategy: series %s of the healthy store %s is missing", e.lset[k], e.sc.stores[i].name)
			}
			for _, ck := range sortedKeys(e.sent[i][k]) {
				if !got[k][ck] {
					return fmt.Sprintf("warn strategy: chunk %s of series %s of the healthy store %s is missing", e.sent[i][k][ck], e.lset[k], e.sc.stores[i].name)
				}
			}
		}
	}
	return ""
}

// errorStates lists the error-kind fault states of store i (space A).
func (e *c06Env) errorStates(i int) []faultSpec {
	out := []faultSpec{{kind: faultOpen, err: e.injectedErr(i)}}
	for k := 0; k <= e.nframes[i]; k++ {
		out = append(out, faultSpec{kind: faultRecv, after: k, err: e.injectedErr(i)})
	}
	return out
}

// enumerate calls visit for every element of the fault space; visit returns false to stop.
func (e *c06Env) enumerate(drawn []faultSpec, visit func(faults []faultSpec) bool) (n int, complete bool) {
	ns := len(e.sc.stores)
	cur := make([]faultSpec, ns)
	// (A) product of error states
	var rec func(i int, failing int) bool
	rec = func(i, failing int) bool {
		if i == ns {
			if failing == 0 {
				return true
			}
			n++
			return visit(append([]faultSpec(nil), cur...))
		}
		cur[i] = faultSpec{}
		if !rec(i+1, failing) {
			return false
		}
		for _, f := range e.errorStates(i) {
			cur[i] = f
			if !rec(i+1, failing+1) {
				return false
			}
		}
		cur[i] = faultSpec{}
		return true
	}
	if !rec(0, 0) {
		return n, false
	}
	// (B) one stalling store x subsets of the others failing at their drawn point
	for i := 0; i < ns; i++ {
		for k := 0; k <= e.nframes[i]; k++ {
			for mask := 0; mask < 1<<ns; mask++ {
				if mask&(1<<i) != 0 {
					continue
				}
				f := make([]faultSpec, ns)
				f[i] = faultSpec{kind: faultStall, after: k}
				for j := 0; j < ns; j++ {
					if mask&(1<<j) != 0 {
						f[j] = drawn[j]
					}
				}
				n++
				if !visit(f) {
					return n, false
				}
			}
		}
	}
	return n, true
}

func renderFaults(fs []faultSpec) string {
	var s []string
	for i, f := range fs {
		s = append(s, fmt.Sprintf("%d:%s", i, f))
	}
	return strings.Join(s, " ")
}

func c06MaxFrames(nst int) int {
	switch nst {
	case 2:
		return 5
	case 3:
		return 3
	}
	return 2
}

func TestVerifC06(t *testing.T) {
	rec := kit.For(t, "C06")
	rec.Exhaustive(true)

	// Regression table: a fixed two-store scenario under the complete fault space, all modes, all three
	// abort representations. VERIF_N_c06fixed=0 skips it (used only for sensitivity experiments).
	if kit.Scale("c06fixed", 1, 1) > 0 {
		r1, r2 := newRawChunk([]smpl{{1000, 1}, {2000, 2}}), newRawChunk([]smpl{{3000, 1}})
		lA, lB := labels.FromStrings("a", "1"), labels.FromStrings("a", "2")
		sc := c03Fixed(nil, nil,
			[]frameSpec{{series: []serSpec{{lA, []*chunkSpec{r1}}}}, {series: []serSpec{{lA, []*chunkSpec{r2}}}}, {series: []serSpec{{lB, []*chunkSpec{r1}}}}},
			[]frameSpec{{batch: true, series: []serSpec{{lA, []*chunkSpec{r1}}, {lB, []*chunkSpec{r2}}}}})
		for _, repr := range []int{0, 1, 2} {
			e := c06NewEnv(sc, 1, 0, repr, repr == 1)
			drawn := []faultSpec{{kind: faultRecv, after: 1, err: e.injectedErr(0)}, {kind: faultOpen, err: e.injectedErr(1)}}
			e.enumerate(drawn, func(fs []faultSpec) bool {
				for _, m := range c06Modes {
					if msg := e.run(fs, m); msg != "" {
						rec.Violation(t, "regression (two stores, abort representation %d): mode=%s faults=%s: %s", repr, m, renderFaults(fs), msg)
					}
				}
				return true
			})
		}
	}

	rec.Check(t, func(rt *rapid.T) {
		sc := c03GenScenario(rt, c03Opts{minStores: 2, maxStores: 4, maxSeries: 4, plain: true, maxFrames: c06MaxFrames})
		e := c06NewEnv(sc,
			rapid.IntRange(1, 4).Draw(rt, "lazyBuf"),
			rapid.SampledFrom([]int64{0, 0, 2, 3}).Draw(rt, "batch"),
			rapid.IntRange(0, 2).Draw(rt, "abortRepresentation"),
			rapid.Bool().Draw(rt, "grpcStatusErrors"))
		drawn := make([]faultSpec, len(sc.stores))
		for i := range drawn {
			k := rapid.IntRange(-1, e.nframes[i]).Draw(rt, "drawnPoint")
			if k < 0 {
				drawn[i] = faultSpec{kind: faultOpen, err: e.injectedErr(i)}
			} else {
				drawn[i] = faultSpec{kind: faultRecv, after: k, err: e.injectedErr(i)}
			}
		}
		scKey := renderStores(sc.stores, &sc.req)
		var failMsg string
		_, complete := e.enumerate(drawn, func(fs []faultSpec) bool {
			for _, m := range c06Modes {
				if msg := e.run(fs, m); msg != "" {
					failMsg = fmt.Sprintf("mode=%s faults=[%s]: %s", m, renderFaults(fs), msg)
					return false
				}
				var classes []string
				nt := false
				nfail := 0
				for i, f := range fs {
					switch f.kind {
					case faultOpen:
						classes = append(classes, "fault-open-error")
					case faultRecv:
						switch {
						case f.after == 0:
							classes = append(classes, "fault-recv-error-before-first-frame")
						case f.after == e.nframes[i]:
							classes = append(classes, "fault-recv-error-instead-of-EOF")
						default:
							classes = append(classes, "fault-recv-error-mid-stream")
						}
						nt = nt || f.after >= 1
					case faultStall:
						classes = append(classes, "fault-stall")
						nt = nt || f.after >= 1
					}
					if f.kind != faultNone {
						nfail++
					}
				}
				classes = append(classes, fmt.Sprintf("failing-stores-%d-of-%d", nfail, len(fs)), "mode-"+m.String())
				if nfail == len(fs) {
					classes = append(classes, "all-stores-fail")
				}
				rec.Case(fmt.Sprintf("mode=%s faults=[%s] buf=%d batch=%d | %s", m, renderFaults(fs), e.lazyBuf, e.batch, scKey), nt, classes...)
			}
			return true
		})
		for _, st := range sc.stores {
			st.fault = faultSpec{}
		}
		if failMsg != "" {
			rt.Fatalf("C06 violated: %s\nlazyBuf=%d batch=%d abortRepr=%d replica=%v\nstores: %s", failMsg, e.lazyBuf, e.batch, e.abortRepr, sc.replica, scKey)
		}
		if !complete {
			rt.Fatalf("harness: fault enumeration stopped early")
		}
		rec.Class("scenarios")
		rec.Class(fmt.Sprintf("abort-representation-%d", e.abortRepr))
		rec.Class(fmt.Sprintf("scenario-stores-%d", len(sc.stores)))
	})
}
