package xproxy

// C03 StoreAPI fan-out merge returns each series once, sorted, with all chunks.
//
// Domain: 1..5 fake stores over a small universe of series; every store streams its series sorted
// by labels (after replica-label removal when it supports that, with the replica labels otherwise),
// a series' chunks may be split over consecutive frames, frames are sent singly or as batches,
// chunks are byte-identical across stores/replicas or distinct (incl. same time range / different
// content), raw or aggregate. Every scenario is sent through ProxyStore.Series under several
// (retrieval strategy, lazy buffer, response batch size) configurations.
// Oracle (per run): flattened result strictly sorted by labels (=> each label set once), label sets
// == the replica-stripped label sets any store sent, per label set the returned chunks are exactly
// the distinct (by content) chunks sent for it, ordered by (MinTime, MaxTime); and all runs of one
// scenario return the same result.

import (
	"fmt"
	"sort"
	"strings"
	"testing"

	"github.com/prometheus/prometheus/model/labels"
	"pgregory.net/rapid"

	"github.com/thanos-io/thanos/pkg/store"
	"github.com/thanos-io/thanos/pkg/store/storepb"
	"github.com/thanos-io/thanos/verifx/kit"
)

// Root cause of F3: responseDeduplicator keys a chunk by the hash of its first field that is not
// in the map yet, so identical multi-field aggregate chunks survive once per field, and a distinct
// chunk is dropped when all of its field payloads were already used as keys.
const sigC03Aggr = "C03/aggr-chunk-dedup-keyed-per-field"

type c03Held struct {
	full   labels.Labels
	chunks []*chunkSpec
}

type c03Scenario struct {
	replica  []string
	stores   []*fakeStore
	expLset  map[string]labels.Labels
	expChunk map[string]map[string]*chunkSpec
	classes  map[string]bool
	req      storepb.SeriesRequest
}

func (sc *c03Scenario) clients() []store.Client {
	cl := make([]store.Client, len(sc.stores))
	for i, s := range sc.stores {
		cl[i] = s
	}
	return cl
}

func staticFrames(fr []frameSpec) func(*storepb.SeriesRequest) []frameSpec {
	return func(*storepb.SeriesRequest) []frameSpec { return fr }
}

// c03BuildStore turns what a store holds into its frame stream.
//   - splitAt(i, n) returns the cut positions (ascending, in 1..n-1) for the i-th series with n chunks;
//   - batchOf(k) returns the size of the next batch (0 = single series frame) with k frames left.
func c03BuildFrames(held []c03Held, strip map[string]struct{}, supports bool,
	splitAt func(i, n int) []int, batchOf func(left int) int) (frames []frameSpec, split bool, resorted bool) {
	type row struct {
		out, full labels.Labels
		chunks    []*chunkSpec
	}
	rows := make([]row, 0, len(held))
	for _, h := range held {
		out := h.full
		if supports {
			out = stripLabels(h.full, strip)
		}
		cs := append([]*chunkSpec(nil), h.chunks...)
		sort.SliceStable(cs, func(i, j int) bool {
			if cs[i].mint != cs[j].mint {
				return cs[i].mint < cs[j].mint
			}
			return cs[i].maxt < cs[j].maxt
		})
		rows = append(rows, row{out: out, full: h.full, chunks: cs})
	}
	sort.SliceStable(rows, func(i, j int) bool { return labels.Compare(rows[i].out, rows[j].out) < 0 })
	if !supports {
		// does the proxy have to re-sort this store's stream after stripping?
		for i := 1; i < len(rows); i++ {
			if labels.Compare(stripLabels(rows[i-1].out, strip), stripLabels(rows[i].out, strip)) > 0 {
				resorted = true
			}
		}
	}
	var single []serSpec
	for i, r := range rows {
		cuts := splitAt(i, len(r.chunks))
		prev := 0
		for _, c := range append(cuts, len(r.chunks)) {
			if c <= prev || c > len(r.chunks) {
				continue
			}
			single = append(single, serSpec{lset: r.out, chunks: r.chunks[prev:c]})
			prev = c
		}
		if len(cuts) > 0 {
			split = true
		}
	}
	for i := 0; i < len(single); {
		n := batchOf(len(single) - i)
		if n <= 0 {
			frames = append(frames, frameSpec{series: single[i : i+1]})
			i++
			continue
		}
		if n > len(single)-i {
			n = len(single) - i
		}
		frames = append(frames, frameSpec{batch: true, series: single[i : i+n]})
		i += n
	}
	return frames, split, resorted
}

// c03Finish computes the expected result from the frames the stores will really send.
func (sc *c03Scenario) finish() {
	strip := map[string]struct{}{}
	for _, r := range sc.replica {
		strip[r] = struct{}{}
	}
	sc.expLset = map[string]labels.Labels{}
	sc.expChunk = map[string]map[string]*chunkSpec{}
	holders := map[string]map[string]map[int]bool{} // lset -> chunk -> stores
	for si, st := range sc.stores {
		for _, f := range st.frames(&sc.req) {
			if f.batch {
				sc.classes["in-batch"] = true
			}
			for _, s := range f.series {
				l := stripLabels(s.lset, strip)
				k := lsetKey(l)
				sc.expLset[k] = l
				if sc.expChunk[k] == nil {
					sc.expChunk[k] = map[string]*chunkSpec{}
					holders[k] = map[string]map[int]bool{}
				}
				for _, c := range s.chunks {
					sc.expChunk[k][c.key] = c
					if holders[k][c.key] == nil {
						holders[k][c.key] = map[int]bool{}
					}
					holders[k][c.key][si] = true
				}
			}
		}
	}
	for _, byChunk := range holders {
		for _, sts := range byChunk {
			if len(sts) >= 2 {
				sc.classes["dup-chunk-across-stores"] = true
			}
		}
	}
	for _, cs := range sc.expChunk {
		seen := map[[2]int64]bool{}
		for _, c := range cs {
			r := [2]int64{c.mint, c.maxt}
			if seen[r] {
				sc.classes["same-range-different-content"] = true
			}
			seen[r] = true
		}
	}
}

// c03AggrAffected reports whether the scenario touches the root cause of F3: some series is offered
// multi-field aggregate chunk instances (over all stores and frames) among which a field payload
// repeats (identical chunks sent twice, or equal payloads in different fields/chunks).
func (sc *c03Scenario) aggrAffected() bool {
	strip := map[string]struct{}{}
	for _, r := range sc.replica {
		strip[r] = struct{}{}
	}
	seen := map[string]map[string]bool{}
	for _, st := range sc.stores {
		for _, f := range st.frames(&sc.req) {
			for _, s := range f.series {
				k := lsetKey(stripLabels(s.lset, strip))
				if seen[k] == nil {
					seen[k] = map[string]bool{}
				}
				for _, c := range s.chunks {
					if c.data[fRaw] != nil || c.nfields() < 2 {
						continue
					}
					for _, d := range c.data {
						if d == nil {
							continue
						}
						if seen[k][string(d)] {
							return true
						}
						seen[k][string(d)] = true
					}
				}
			}
		}
	}
	return false
}

// c03Check is the per-run oracle. It returns "" or a description of the violation.
func c03Check(sc *c03Scenario, out *collected, err error) string {
	if err != nil {
		return "Series returned an error: " + err.Error()
	}
	for i := 1; i < len(out.series); i++ {
		c := labels.Compare(out.series[i-1].lset, out.series[i].lset)
		if c == 0 {
			return fmt.Sprintf("label set %s returned more than once (positions %d and %d)", out.series[i].lset, i-1, i)
		}
		if c > 0 {
			return fmt.Sprintf("result not sorted: %s (position %d) before %s", out.series[i-1].lset, i-1, out.series[i].lset)
		}
	}
	got := map[string]bool{}
	for _, s := range out.series {
		k := lsetKey(s.lset)
		got[k] = true
		exp, ok := sc.expChunk[k]
		if !ok {
			return fmt.Sprintf("series %s was sent by no store (after replica label removal)", s.lset)
		}
		seen := map[string]int{}
		for i, c := range s.chunks {
			ck := keyOfProto(c)
			if _, ok := exp[ck]; !ok {
				return fmt.Sprintf("series %s: returned chunk [%d,%d] was sent by no store for it", s.lset, c.MinTime, c.MaxTime)
			}
			seen[ck]++
			if seen[ck] == 2 {
				return fmt.Sprintf("series %s: identical chunk %s returned more than once", s.lset, exp[ck])
			}
			if i > 0 {
				p := s.chunks[i-1]
				if p.MinTime > c.MinTime || (p.MinTime == c.MinTime && p.MaxTime > c.MaxTime) {
					return fmt.Sprintf("series %s: chunks not ordered by time: [%d,%d] before [%d,%d]", s.lset, p.MinTime, p.MaxTime, c.MinTime, c.MaxTime)
				}
			}
		}
		for _, ck := range sortedKeys(exp) {
			if seen[ck] == 0 {
				return fmt.Sprintf("series %s: chunk %s sent by a store is missing", s.lset, exp[ck])
			}
		}
	}
	for _, k := range sortedKeys(sc.expLset) {
		if !got[k] {
			return fmt.Sprintf("series %s sent by a store is missing from the result", sc.expLset[k])
		}
	}
	return ""
}

func c03Canon(out *collected) string {
	o := *out
	o.warnings = nil
	return renderOut(&o)
}

// c03Run executes the scenario under every configuration and applies both oracles.
func c03Run(sc *c03Scenario, cfgs []proxyCfg) (string, []*collected) {
	var first string
	outs := make([]*collected, 0, len(cfgs))
	for i, cfg := range cfgs {
		for _, s := range sc.stores {
			s.reset()
		}
		out, err := runProxy(sc.clients(), cfg, sc.req)
		outs = append(outs, out)
		if msg := c03Check(sc, out, err); msg != "" {
			return fmt.Sprintf("[%s] %s\n  result: %s", cfg, msg, renderOut(out)), outs
		}
		for _, s := range sc.stores {
			if n := s.numCalls(); n != 1 {
				return fmt.Sprintf("[%s] harness: store %s received %d Series calls", cfg, s.name, n), outs
			}
		}
		c := c03Canon(out)
		if i == 0 {
			first = c
		} else if c != first {
			return fmt.Sprintf("result differs between configurations:\n  [%s] %s\n  [%s] %s", cfgs[0], first, cfg, c), outs
		}
	}
	return "", outs
}

var c03Names = []string{"a", "b", "c", "d"}

// c03Opts narrows the scenario generator (C06 reuses it with small, plain scenarios).
type c03Opts struct {
	constrainAggr        bool // exclude the class of known finding F3 by construction
	minStores, maxStores int
	maxSeries            int
	plain                bool              // raw chunks only, no store-sent warning frames, no Recv pauses
	maxFrames            func(nst int) int // optional bound on the frames per store
}

func c03GenScenario(rt *rapid.T, o c03Opts) *c03Scenario {
	constrainAggr := o.constrainAggr
	sc := &c03Scenario{classes: map[string]bool{}}
	sc.replica = rapid.SampledFrom([][]string{nil, nil, {"b"}, {"d"}, {"b", "d"}, {"a"}, {"c"}, {"b", "c"}}).Draw(rt, "replicaLabels")
	strip := map[string]struct{}{}
	for _, r := range sc.replica {
		strip[r] = struct{}{}
	}
	aggr := !o.plain && rapid.IntRange(0, 4).Draw(rt, "aggr") == 0
	var fields []int
	flat := false
	if aggr {
		fields = rapid.SampledFrom([][]int{
			{fCount}, {fSum}, {fCount, fSum}, {fMin, fMax}, {fCount, fSum, fMin, fMax, fCounter}, {fCounter}, {fSum, fCounter},
		}).Draw(rt, "aggrFields")
		flat = rapid.IntRange(0, 3).Draw(rt, "flat") == 0
		sc.classes["aggr"] = true
		if len(fields) >= 2 {
			sc.classes["aggr-multi-field"] = true
		}
	}
	unique := constrainAggr && aggr && len(fields) >= 2
	if unique {
		flat = false
	}

	// universe of full label sets
	nser := rapid.IntRange(1, o.maxSeries).Draw(rt, "series")
	type useries struct {
		full     labels.Labels
		stripped string
	}
	var uni []useries
	seenFull := map[string]bool{}
	for i := 0; i < nser; i++ {
		var kv []string
		nonReplica := 0
		for _, n := range c03Names {
			if rapid.IntRange(0, 9).Draw(rt, "has_"+n) < 6 {
				kv = append(kv, n, fmt.Sprint(rapid.IntRange(0, 2).Draw(rt, "v_"+n)))
				if _, isRep := strip[n]; !isRep {
					nonReplica++
				}
			}
		}
		if nonReplica == 0 {
			// every real series keeps at least one label (its name) after replica removal
			kv = append(kv, "m", fmt.Sprint(rapid.IntRange(0, 1).Draw(rt, "v_m")))
		}
		l := labels.FromStrings(kv...)
		if seenFull[lsetKey(l)] {
			continue
		}
		seenFull[lsetKey(l)] = true
		uni = append(uni, useries{full: l, stripped: lsetKey(stripLabels(l, strip))})
	}

	// chunk pool per stripped label set
	pools := map[string][]*chunkSpec{}
	variant := 0
	for _, u := range uni {
		if _, ok := pools[u.stripped]; ok {
			sc.classes["replicas-merge-into-one-series"] = true
			continue
		}
		n := rapid.IntRange(1, 4).Draw(rt, "poolSize")
		var pool []*chunkSpec
		var prev []smpl
		cur := int64(rapid.IntRange(1, 1000).Draw(rt, "t0"))
		for i := 0; i < n; i++ {
			variant++
			var ss []smpl
			kind := 0
			if prev != nil {
				kind = rapid.IntRange(0, 3).Draw(rt, "layout")
			}
			switch kind {
			case 2: // same timestamps, different values
				for _, p := range prev {
					ss = append(ss, smpl{p.t, p.v + float64(variant)})
				}
			default:
				start := cur + int64(rapid.IntRange(1, 50).Draw(rt, "gap"))
				if kind == 3 { // overlapping the previous chunk
					start = prev[0].t + int64(rapid.IntRange(0, int(prev[len(prev)-1].t-prev[0].t)).Draw(rt, "ovl"))
				}
				k := rapid.IntRange(1, 4).Draw(rt, "samples")
				t := start
				for j := 0; j < k; j++ {
					ss = append(ss, smpl{t, float64(rapid.IntRange(0, 3).Draw(rt, "v"))})
					t += int64(rapid.IntRange(1, 30).Draw(rt, "dt"))
				}
			}
			if ss[len(ss)-1].t > cur {
				cur = ss[len(ss)-1].t
			}
			prev = ss
			var c *chunkSpec
			if aggr {
				vr := variant
				c = newAggrChunk(ss, fields, func(f, i int, s smpl) float64 {
					if flat {
						return s.v
					}
					if unique {
						return s.v + float64(100*f+1000*vr)
					}
					return s.v + float64(f)
				})
			} else {
				c = newRawChunk(ss)
			}
			dup := false
			for _, p := range pool {
				if p.key == c.key {
					dup = true
				}
			}
			if !dup {
				pool = append(pool, c)
			}
		}
		pools[u.stripped] = pool
	}

	// stores
	nst := rapid.IntRange(o.minStores, o.maxStores).Draw(rt, "stores")
	taken := map[string]bool{} // stripped|chunk already placed (only when unique)
	for si := 0; si < nst; si++ {
		st := &fakeStore{name: fmt.Sprintf("fakestore-%d", si), mint: -1 << 62, maxt: 1 << 62}
		st.withoutReplica = true
		if len(sc.replica) > 0 && rapid.IntRange(0, 9).Draw(rt, "unsupported") < 4 {
			st.withoutReplica = false
			sc.classes["store-without-replica-support"] = true
		}
		st.withHash = rapid.Bool().Draw(rt, "withHash")
		var held []c03Held
		for _, u := range uni {
			if rapid.IntRange(0, 9).Draw(rt, "holds") >= 6 {
				continue
			}
			var cs []*chunkSpec
			pool := pools[u.stripped]
			for ci, c := range pool {
				if rapid.IntRange(0, 9).Draw(rt, "hasChunk") < 7 || (ci == len(pool)-1 && len(cs) == 0) {
					if unique {
						if taken[u.stripped+"|"+c.key] {
							continue
						}
						taken[u.stripped+"|"+c.key] = true
					}
					cs = append(cs, c)
				}
			}
			if len(cs) == 0 {
				continue
			}
			held = append(held, c03Held{full: u.full, chunks: cs})
		}
		if len(held) == 0 {
			sc.classes["empty-store"] = true
		}
		splitP := rapid.IntRange(0, 9).Draw(rt, "splitP")
		batchMode := rapid.IntRange(0, 3).Draw(rt, "batchMode") // 0 none, 1 fixed size, 2 mixed, 3 none
		fixed := rapid.IntRange(1, 4).Draw(rt, "batchSize")
		var frames []frameSpec
		var split, resorted bool
	build:
		frames, split, resorted = c03BuildFrames(held, strip, st.withoutReplica,
			func(i, n int) []int {
				if n < 2 || rapid.IntRange(0, 9).Draw(rt, "split") >= splitP {
					return nil
				}
				cuts := []int{rapid.IntRange(1, n-1).Draw(rt, "cut1")}
				if n >= 3 && rapid.Bool().Draw(rt, "cut2") {
					c2 := rapid.IntRange(1, n-1).Draw(rt, "cut2at")
					if c2 != cuts[0] {
						cuts = append(cuts, c2)
						sort.Ints(cuts)
					}
				}
				return cuts
			},
			func(left int) int {
				switch batchMode {
				case 1:
					return fixed
				case 2:
					return rapid.IntRange(0, 3).Draw(rt, "batchN")
				}
				return 0
			})
		if o.maxFrames != nil && len(frames) > o.maxFrames(nst) {
			held = held[:len(held)-1]
			goto build
		}
		if split {
			sc.classes["series-split-across-frames"] = true
		}
		if resorted {
			sc.classes["proxy-must-resort"] = true
		}
		if !o.plain && len(frames) > 0 && rapid.IntRange(0, 5).Draw(rt, "chunklessFrame") == 0 {
			// A store may send a frame of a series that carries no chunks (e.g. one piece of a series
			// split over frames holds nothing for the requested range). It is placed next to a frame of
			// the same series, so the stream stays sorted and the expected chunks do not change.
			at := rapid.IntRange(0, len(frames)-1).Draw(rt, "chunklessAt")
			if f := frames[at]; f.warning == "" && len(f.series) > 0 {
				k := rapid.IntRange(0, len(f.series)-1).Draw(rt, "chunklessSeries")
				before := rapid.Bool().Draw(rt, "chunklessBefore")
				if f.batch && ((before && k != 0) || (!before && k != len(f.series)-1)) {
					// inside a batch the empty piece must stay adjacent to its series: put it in the batch
					ns := append([]serSpec(nil), f.series...)
					e := serSpec{lset: f.series[k].lset}
					if before {
						ns = append(ns[:k:k], append([]serSpec{e}, ns[k:]...)...)
					} else {
						ns = append(ns[:k+1:k+1], append([]serSpec{e}, ns[k+1:]...)...)
					}
					frames[at] = frameSpec{batch: true, series: ns}
				} else {
					e := frameSpec{series: []serSpec{{lset: f.series[k].lset}}}
					if before {
						frames = append(frames[:at:at], append([]frameSpec{e}, frames[at:]...)...)
					} else {
						frames = append(frames[:at+1:at+1], append([]frameSpec{e}, frames[at+1:]...)...)
					}
				}
				sc.classes["chunkless-frame"] = true
				if before {
					sc.classes["chunkless-frame-first"] = true
				}
			}
		}
		if !o.plain && rapid.IntRange(0, 19).Draw(rt, "storeWarning") == 0 {
			at := rapid.IntRange(0, len(frames)).Draw(rt, "warnAt")
			w := frameSpec{warning: fmt.Sprintf("store-sent warning of %s", st.name)}
			frames = append(frames[:at:at], append([]frameSpec{w}, frames[at:]...)...)
			sc.classes["store-sent-warning-frame"] = true
		}
		if !o.plain && rapid.IntRange(0, 9).Draw(rt, "pauses") < 3 {
			n := rapid.IntRange(1, 4).Draw(rt, "pauseLen")
			for i := 0; i < n; i++ {
				st.pauses = append(st.pauses, rapid.SampledFrom([]int{pauseNone, pauseYield, pauseYield, 2, 3, 6}).Draw(rt, "pause"))
			}
			sc.classes["recv-pauses"] = true
		}
		st.frames = staticFrames(frames)
		sc.stores = append(sc.stores, st)
	}
	sc.req = storepb.SeriesRequest{
		MinTime: 0, MaxTime: 1 << 40,
		Matchers:             []storepb.LabelMatcher{{Type: storepb.LabelMatcher_NEQ, Name: "zzz", Value: "nope"}},
		WithoutReplicaLabels: sc.replica,
	}
	if aggr {
		sc.req.MaxResolutionWindow = 300000
		for _, f := range fields {
			sc.req.Aggregates = append(sc.req.Aggregates, map[int]storepb.Aggr{
				fCount: storepb.Aggr_COUNT, fSum: storepb.Aggr_SUM, fMin: storepb.Aggr_MIN, fMax: storepb.Aggr_MAX, fCounter: storepb.Aggr_COUNTER}[f])
		}
	}
	sc.finish()
	return sc
}

func c03GenConfigs(rt *rapid.T) []proxyCfg {
	batches := []int64{0, 1, 2, 3, 5, 64}
	cfgs := []proxyCfg{
		{strategy: store.EagerRetrieval, lazyBuf: 1, batch: 0},
		{strategy: store.LazyRetrieval, lazyBuf: rapid.IntRange(1, 8).Draw(rt, "lazyBuf"), batch: rapid.SampledFrom(batches).Draw(rt, "batchA")},
	}
	st := store.EagerRetrieval
	if rapid.Bool().Draw(rt, "thirdLazy") {
		st = store.LazyRetrieval
	}
	cfgs = append(cfgs, proxyCfg{strategy: st, lazyBuf: rapid.IntRange(0, 8).Draw(rt, "lazyBuf2"), batch: rapid.SampledFrom(batches).Draw(rt, "batchB")})
	return cfgs
}

// c03Fixed builds a scenario from explicit per-store frame lists (regression inputs).
func c03Fixed(replica []string, supports []bool, frames ...[]frameSpec) *c03Scenario {
	sc := &c03Scenario{classes: map[string]bool{}, replica: replica}
	for i, fr := range frames {
		st := &fakeStore{name: fmt.Sprintf("fakestore-%d", i), mint: -1 << 62, maxt: 1 << 62, withoutReplica: true, frames: staticFrames(fr)}
		if supports != nil {
			st.withoutReplica = supports[i]
		}
		sc.stores = append(sc.stores, st)
	}
	sc.req = storepb.SeriesRequest{MinTime: 0, MaxTime: 1 << 40, WithoutReplicaLabels: replica,
		Matchers: []storepb.LabelMatcher{{Type: storepb.LabelMatcher_NEQ, Name: "zzz", Value: "nope"}}}
	sc.finish()
	return sc
}

var c03AllConfigs = func() []proxyCfg {
	var out []proxyCfg
	for _, b := range []int64{0, 1, 2, 3, 64} {
		out = append(out, proxyCfg{strategy: store.EagerRetrieval, lazyBuf: 1, batch: b})
		for _, buf := range []int{1, 2, 8} {
			out = append(out, proxyCfg{strategy: store.LazyRetrieval, lazyBuf: buf, batch: b})
		}
	}
	return out
}()

func TestVerifC03(t *testing.T) {
	rec := kit.For(t, "C03")
	known := kit.KnownFindings("C03")

	lA, lB, lC := labels.FromStrings("a", "1"), labels.FromStrings("a", "1", "c", "0"), labels.FromStrings("a", "2")
	ss1 := []smpl{{1000, 1}, {2000, 2}, {3000, 3}}
	ss2 := []smpl{{4000, 1}, {5000, 5}}
	allFields := []int{fCount, fSum, fMin, fMax, fCounter}
	distinctVals := func(f, i int, s smpl) float64 { return s.v + float64(10*f) }

	// Regression inputs that must hold (raw chunks). VERIF_N_c03fixed=0 skips them (used only to show
	// that the generator alone finds the mutants).
	if kit.Scale("c03fixed", 1, 1) > 0 {
		r1, r2 := newRawChunk(ss1), newRawChunk(ss2)
		r1b := newRawChunk([]smpl{{1000, 7}, {2000, 8}, {3000, 9}})
		fixed := map[string]*c03Scenario{
			"three stores, same raw chunk": c03Fixed(nil, nil,
				[]frameSpec{{series: []serSpec{{lA, []*chunkSpec{r1}}}}},
				[]frameSpec{{series: []serSpec{{lA, []*chunkSpec{r1}}}}},
				[]frameSpec{{series: []serSpec{{lA, []*chunkSpec{r1}}}}, {series: []serSpec{{lC, []*chunkSpec{r1}}}}}),
			"series split over frames and batches": c03Fixed(nil, nil,
				[]frameSpec{{series: []serSpec{{lA, []*chunkSpec{r1}}}}, {series: []serSpec{{lA, []*chunkSpec{r2}}}}, {series: []serSpec{{lB, []*chunkSpec{r1}}}}},
				[]frameSpec{{batch: true, series: []serSpec{{lA, []*chunkSpec{r1b}}, {lA, []*chunkSpec{r2}}, {lC, []*chunkSpec{r2}}}}}),
			"store without replica-label support needs re-sorting": c03Fixed([]string{"b"}, []bool{false, true},
				[]frameSpec{
					{series: []serSpec{{labels.FromStrings("a", "1", "b", "0", "c", "5"), []*chunkSpec{r1}}}},
					{series: []serSpec{{labels.FromStrings("a", "1", "b", "1"), []*chunkSpec{r2}}}},
					{series: []serSpec{{labels.FromStrings("a", "1", "b", "2", "c", "5"), []*chunkSpec{r1}}}}},
				[]frameSpec{{series: []serSpec{{labels.FromStrings("a", "1"), []*chunkSpec{r2}}}}}),
		}
		for _, name := range sortedKeys(fixed) {
			if msg, _ := c03Run(fixed[name], c03AllConfigs); msg != "" {
				rec.Violation(t, "regression %q: %s", name, msg)
			}
		}
	}
	// Saved inputs of finding F3 (root cause: per-field dedup keys).
	{
		ag := newAggrChunk(ss1, allFields, distinctVals)
		f3a := c03Fixed(nil, nil,
			[]frameSpec{{series: []serSpec{{lA, []*chunkSpec{ag}}}}},
			[]frameSpec{{series: []serSpec{{lA, []*chunkSpec{ag}}}}},
			[]frameSpec{{series: []serSpec{{lA, []*chunkSpec{ag}}}}})
		// one store, one series, two DISTINCT aggregate chunks over the same windows: counts equal,
		// sums differ; in the second chunk sum == count (all raw values 1, e.g. "up").
		x := newAggrChunk(ss1, []int{fCount, fSum}, func(f, i int, s smpl) float64 {
			if f == fCount {
				return 2
			}
			return 1
		})
		y := newAggrChunk(ss1, []int{fCount, fSum}, func(f, i int, s smpl) float64 { return 2 })
		f3b := c03Fixed(nil, nil, []frameSpec{{series: []serSpec{{lA, []*chunkSpec{x, y}}}}})
		var still []string
		for _, in := range []struct {
			name string
			sc   *c03Scenario
		}{{"three stores send the same 5-field aggregate chunk", f3a}, {"one store sends two distinct aggregate chunks (count equal, sum==count in the 2nd)", f3b}} {
			if msg, _ := c03Run(in.sc, c03AllConfigs[:2]); msg != "" {
				still = append(still, in.name+": "+strings.SplitN(msg, "\n", 2)[0])
			}
		}
		if len(still) > 0 {
			if known[sigC03Aggr] {
				rec.Known(sigC03Aggr, strings.Join(still, " || "))
			} else {
				rec.Violation(t, "regression F3 (%s): %s", sigC03Aggr, strings.Join(still, " || "))
			}
		}
	}

	rec.Check(t, func(rt *rapid.T) {
		sc := c03GenScenario(rt, c03Opts{constrainAggr: known[sigC03Aggr], minStores: 1, maxStores: 5, maxSeries: 6})
		cfgs := c03GenConfigs(rt)
		if known[sigC03Aggr] && sc.classes["aggr-multi-field"] {
			rec.Excluded(sigC03Aggr)
			if sc.aggrAffected() {
				rt.Fatalf("harness: the generator produced a case of the excluded class %s", sigC03Aggr)
			}
		}
		msg, outs := c03Run(sc, cfgs)
		if msg != "" {
			sig := ""
			if sc.aggrAffected() {
				sig = " (signature " + sigC03Aggr + ")"
			}
			rt.Fatalf("C03 violated%s: %s\nreplica labels: %v\nstores: %s", sig, msg, sc.replica, renderStores(sc.stores, &sc.req))
		}
		classes := sortedKeys(sc.classes)
		for i, cfg := range cfgs {
			classes = append(classes, "cfg-"+string(cfg.strategy))
			if cfg.batch >= 2 {
				classes = append(classes, "cfg-batch>=2")
				for _, sh := range outs[i].shapes {
					if sh < -1 {
						classes = append(classes, "out-batched")
						break
					}
				}
			}
		}
		classes = append(classes, fmt.Sprintf("stores-%d", len(sc.stores)))
		if len(outs[0].series) == 0 {
			classes = append(classes, "empty-result")
		}
		nt := sc.classes["dup-chunk-across-stores"] || sc.classes["series-split-across-frames"]
		rec.Case(fmt.Sprintf("replica=%v %s", sc.replica, renderStores(sc.stores, &sc.req)), nt, classes...)
	})
}
