package xproxy

// Shared fixture of the xproxy group (C03, C05, C06): F-fakestore.
//
// A fakeStore is a store.Client whose Series call streams an explicit list of frames (series /
// batch / warning), can fail before the stream opens, after k frames, or stall until its context is
// cancelled, records the requests it received and honours the SupportsWithoutReplicaLabels /
// SupportsSharding flags. Frames are rebuilt (fresh protobuf messages) for every call because the
// proxy mutates series labels in place when it strips replica labels.

import (
	"context"
	"encoding/binary"
	"errors"
	"fmt"
	"io"
	"runtime"
	"sort"
	"strings"
	"sync"
	"time"

	"github.com/cespare/xxhash/v2"
	"github.com/prometheus/prometheus/model/labels"
	"github.com/prometheus/prometheus/tsdb/chunkenc"
	"google.golang.org/grpc"

	"github.com/thanos-io/thanos/pkg/component"
	"github.com/thanos-io/thanos/pkg/info/infopb"
	"github.com/thanos-io/thanos/pkg/store"
	"github.com/thanos-io/thanos/pkg/store/labelpb"
	"github.com/thanos-io/thanos/pkg/store/storepb"
)

// ---------------------------------------------------------------------------------------------
// chunks

type smpl struct {
	t int64
	v float64
}

// chunkSpec is an immutable description of one AggrChunk; key identifies its content.
type chunkSpec struct {
	mint, maxt int64
	// field data in the order raw, count, sum, min, max, counter; nil = absent.
	data [6][]byte
	key  string
	ss   []smpl // the samples (timestamps of every field)
}

const (
	fRaw = iota
	fCount
	fSum
	fMin
	fMax
	fCounter
)

var fieldNames = [6]string{"raw", "count", "sum", "min", "max", "counter"}

func xorBytes(ss []smpl) []byte {
	c := chunkenc.NewXORChunk()
	a, err := c.Appender()
	if err != nil {
		panic(err)
	}
	for _, s := range ss {
		a.Append(s.t, s.v)
	}
	return c.Bytes()
}

func contentKey(mint, maxt int64, data [6][]byte) string {
	var sb strings.Builder
	var b [8]byte
	binary.BigEndian.PutUint64(b[:], uint64(mint))
	sb.Write(b[:])
	binary.BigEndian.PutUint64(b[:], uint64(maxt))
	sb.Write(b[:])
	for i, d := range data {
		if d == nil {
			continue
		}
		sb.WriteByte(byte('A' + i))
		binary.BigEndian.PutUint32(b[:4], uint32(len(d)))
		sb.Write(b[:4])
		sb.Write(d)
	}
	return sb.String()
}

// newRawChunk encodes the samples (strictly increasing timestamps, >= 1 sample) as one XOR chunk.
func newRawChunk(ss []smpl) *chunkSpec {
	c := &chunkSpec{mint: ss[0].t, maxt: ss[len(ss)-1].t, ss: ss}
	c.data[fRaw] = xorBytes(ss)
	c.key = contentKey(c.mint, c.maxt, c.data)
	return c
}

// newAggrChunk builds a synthetic aggregate chunk: the populated fields (mask over fCount..fCounter)
// are XOR chunks over the same timestamps; valueOf gives the value of field f at sample i.
func newAggrChunk(ss []smpl, fields []int, valueOf func(f, i int, s smpl) float64) *chunkSpec {
	c := &chunkSpec{mint: ss[0].t, maxt: ss[len(ss)-1].t, ss: ss}
	for _, f := range fields {
		fs := make([]smpl, len(ss))
		for i, s := range ss {
			fs[i] = smpl{s.t, valueOf(f, i, s)}
		}
		c.data[f] = xorBytes(fs)
	}
	c.key = contentKey(c.mint, c.maxt, c.data)
	return c
}

func (c *chunkSpec) nfields() int {
	n := 0
	for _, d := range c.data {
		if d != nil {
			n++
		}
	}
	return n
}

// proto builds a fresh AggrChunk; withHash makes the store fill Chunk.Hash like stores that
// calculate checksums do (xxhash of the data), otherwise Hash stays 0 and the proxy hashes itself.
func (c *chunkSpec) proto(withHash bool) storepb.AggrChunk {
	mk := func(d []byte) *storepb.Chunk {
		if d == nil {
			return nil
		}
		ch := &storepb.Chunk{Type: storepb.Chunk_XOR, Data: d}
		if withHash {
			ch.Hash = xxhash.Sum64(d)
		}
		return ch
	}
	return storepb.AggrChunk{
		MinTime: c.mint, MaxTime: c.maxt,
		Raw: mk(c.data[fRaw]), Count: mk(c.data[fCount]), Sum: mk(c.data[fSum]),
		Min: mk(c.data[fMin]), Max: mk(c.data[fMax]), Counter: mk(c.data[fCounter]),
	}
}

func (c *chunkSpec) String() string {
	var fs []string
	for i, d := range c.data {
		if d != nil {
			fs = append(fs, fieldNames[i])
		}
	}
	return fmt.Sprintf("[%d,%d %s #%04x]", c.mint, c.maxt, strings.Join(fs, "+"), xxhash.Sum64String(c.key)&0xffff)
}

// keyOfProto computes the content key of a chunk the proxy returned.
func keyOfProto(c storepb.AggrChunk) string {
	var d [6][]byte
	get := func(ch *storepb.Chunk) []byte {
		if ch == nil {
			return nil
		}
		if ch.Data == nil {
			return []byte{}
		}
		return ch.Data
	}
	d[fRaw], d[fCount], d[fSum], d[fMin], d[fMax], d[fCounter] = get(c.Raw), get(c.Count), get(c.Sum), get(c.Min), get(c.Max), get(c.Counter)
	return contentKey(c.MinTime, c.MaxTime, d)
}

// ---------------------------------------------------------------------------------------------
// frames

type serSpec struct {
	lset   labels.Labels
	chunks []*chunkSpec
}

// frameSpec is one message of a store's stream: a warning, a single series, or a batch of series.
type frameSpec struct {
	warning string
	batch   bool
	series  []serSpec
}

func (f frameSpec) proto(withHash bool) *storepb.SeriesResponse {
	if f.warning != "" {
		return storepb.NewWarnSeriesResponse(errors.New(f.warning))
	}
	mk := func(s serSpec) *storepb.Series {
		out := &storepb.Series{Labels: labelpb.ZLabelsFromPromLabels(s.lset.Copy())}
		for _, c := range s.chunks {
			out.Chunks = append(out.Chunks, c.proto(withHash))
		}
		return out
	}
	if f.batch {
		b := make([]*storepb.Series, 0, len(f.series))
		for _, s := range f.series {
			b = append(b, mk(s))
		}
		return storepb.NewBatchResponse(b)
	}
	return storepb.NewSeriesResponse(mk(f.series[0]))
}

func (f frameSpec) String() string {
	if f.warning != "" {
		return "W(" + f.warning + ")"
	}
	var ss []string
	for _, s := range f.series {
		var cs []string
		for _, c := range s.chunks {
			cs = append(cs, c.String())
		}
		ss = append(ss, s.lset.String()+strings.Join(cs, ""))
	}
	if f.batch {
		return "B<" + strings.Join(ss, " ; ") + ">"
	}
	return "S<" + strings.Join(ss, "") + ">"
}

// ---------------------------------------------------------------------------------------------
// faults

type faultKind int

const (
	faultNone  faultKind = iota
	faultOpen            // Series() itself returns an error
	faultRecv            // Recv returns an error after `after` delivered frames
	faultStall           // Recv blocks after `after` delivered frames until the context is cancelled
)

const (
	stallSafety   = 60 * time.Second // a stalled stream that is never cancelled is a harness error
	pauseNone     = 0
	pauseYield    = 1
	pauseSleepMin = 2 // values >= 2: sleep (value-1)*50us
)

type faultSpec struct {
	kind  faultKind
	after int
	err   error
}

func (f faultSpec) String() string {
	switch f.kind {
	case faultOpen:
		return "open-error"
	case faultRecv:
		return fmt.Sprintf("recv-error@%d", f.after)
	case faultStall:
		return fmt.Sprintf("stall@%d", f.after)
	}
	return "healthy"
}

// ---------------------------------------------------------------------------------------------
// fakeStore

type fakeStore struct {
	name           string
	lsets          []labels.Labels
	mint, maxt     int64
	withoutReplica bool // SupportsWithoutReplicaLabels
	sharding       bool
	withHash       bool
	// frames computes the stream for a request (static list for C03/C06, brute-force filter for C05).
	frames func(req *storepb.SeriesRequest) []frameSpec
	// validate, if set, lets the store reject a request like a real StoreAPI server does; as with gRPC
	// the error surfaces on the first Recv of the stream.
	validate func(req *storepb.SeriesRequest) error
	pauses   []int // per delivered frame (cyclic); see pause* constants
	fault    faultSpec
	// honourCancel makes a healthy stream behave like a gRPC stream: once its context is cancelled
	// Recv fails with the context's error (used by the C06 cancellation test only).
	honourCancel bool
	// lastFramePause delays the delivery of the last frame before a stall, so that the stalling Recv
	// (and with it the proxy's frame timer of this store) starts later than the other stores' Recvs.
	lastFramePause time.Duration

	mu          sync.Mutex
	calls       []*storepb.SeriesRequest
	harnessErrs []string
	delivered   int // frames delivered by the last stream
}

var _ store.Client = (*fakeStore)(nil)

func (s *fakeStore) LabelSets() []labels.Labels         { return s.lsets }
func (s *fakeStore) TimeRange() (int64, int64)          { return s.mint, s.maxt }
func (s *fakeStore) TSDBInfos() []infopb.TSDBInfo       { return nil }
func (s *fakeStore) SupportsSharding() bool             { return s.sharding }
func (s *fakeStore) SupportsWithoutReplicaLabels() bool { return s.withoutReplica }
func (s *fakeStore) String() string                     { return s.name }
func (s *fakeStore) Addr() (string, bool)               { return s.name + ":10901", false }
func (s *fakeStore) Matches([]*labels.Matcher) bool     { return true }

func (s *fakeStore) LabelNames(context.Context, *storepb.LabelNamesRequest, ...grpc.CallOption) (*storepb.LabelNamesResponse, error) {
	return &storepb.LabelNamesResponse{}, nil
}

func (s *fakeStore) LabelValues(context.Context, *storepb.LabelValuesRequest, ...grpc.CallOption) (*storepb.LabelValuesResponse, error) {
	return &storepb.LabelValuesResponse{}, nil
}

func (s *fakeStore) Series(ctx context.Context, req *storepb.SeriesRequest, _ ...grpc.CallOption) (storepb.Store_SeriesClient, error) {
	s.mu.Lock()
	s.calls = append(s.calls, req)
	s.delivered = 0
	s.mu.Unlock()
	if s.fault.kind == faultOpen {
		return nil, s.fault.err
	}
	if s.validate != nil {
		if err := s.validate(req); err != nil {
			return &fakeSeriesClient{ctx: ctx, st: s, reject: err}, nil
		}
	}
	specs := s.frames(req)
	frames := make([]*storepb.SeriesResponse, len(specs))
	for i, f := range specs {
		frames[i] = f.proto(s.withHash)
	}
	return &fakeSeriesClient{ctx: ctx, st: s, frames: frames}, nil
}

func (s *fakeStore) numCalls() int {
	s.mu.Lock()
	defer s.mu.Unlock()
	return len(s.calls)
}

func (s *fakeStore) reset() {
	s.mu.Lock()
	s.calls, s.harnessErrs, s.delivered = nil, nil, 0
	s.mu.Unlock()
}

type fakeSeriesClient struct {
	storepb.Store_SeriesClient // unused methods
	ctx                        context.Context
	st                         *fakeStore
	frames                     []*storepb.SeriesResponse
	i                          int
	reject                     error
}

func (c *fakeSeriesClient) Context() context.Context { return c.ctx }
func (c *fakeSeriesClient) CloseSend() error         { return nil }

func (c *fakeSeriesClient) Recv() (*storepb.SeriesResponse, error) {
	if c.reject != nil {
		return nil, c.reject
	}
	f := c.st.fault
	if f.kind == faultRecv && c.i >= f.after {
		return nil, f.err
	}
	if f.kind == faultStall && c.i >= f.after {
		// The injected fault is "no frame arrives any more"; like a gRPC stream the call returns
		// when the stream context is cancelled (by the proxy's frame timeout or by Close).
		tm := time.NewTimer(stallSafety)
		defer tm.Stop()
		select {
		case <-c.ctx.Done():
			return nil, c.ctx.Err()
		case <-tm.C:
			c.st.mu.Lock()
			c.st.harnessErrs = append(c.st.harnessErrs, "stalled stream was never cancelled")
			c.st.mu.Unlock()
			return nil, errors.New("harness: stalled stream was never cancelled")
		}
	}
	if c.st.honourCancel && c.ctx.Err() != nil {
		return nil, c.ctx.Err()
	}
	if c.i >= len(c.frames) {
		return nil, io.EOF
	}
	if len(c.st.pauses) > 0 {
		switch p := c.st.pauses[c.i%len(c.st.pauses)]; {
		case p == pauseYield:
			runtime.Gosched()
		case p >= pauseSleepMin:
			time.Sleep(time.Duration(p-1) * 50 * time.Microsecond)
		}
	}
	if f.kind == faultStall && c.st.lastFramePause > 0 && c.i == f.after-1 {
		time.Sleep(c.st.lastFramePause)
	}
	r := c.frames[c.i]
	c.i++
	c.st.mu.Lock()
	c.st.delivered = c.i
	c.st.mu.Unlock()
	return r, nil
}

// ---------------------------------------------------------------------------------------------
// collecting server

type outSeries struct {
	lset   labels.Labels
	chunks []storepb.AggrChunk
}

type collected struct {
	series   []outSeries
	warnings []string
	shapes   []int // per Send: 0 warning/other, 1 single series, -n batch of n
}

type collectServer struct {
	storepb.Store_SeriesServer
	ctx context.Context
	out collected
}

func (s *collectServer) Context() context.Context { return s.ctx }

func (s *collectServer) add(x *storepb.Series) {
	s.out.series = append(s.out.series, outSeries{
		lset:   labelpb.ZLabelsToPromLabels(x.Labels).Copy(),
		chunks: append([]storepb.AggrChunk(nil), x.Chunks...),
	})
}

func (s *collectServer) Send(r *storepb.SeriesResponse) error {
	switch {
	case r.GetWarning() != "":
		s.out.warnings = append(s.out.warnings, r.GetWarning())
		s.out.shapes = append(s.out.shapes, 0)
	case r.GetSeries() != nil:
		s.add(r.GetSeries())
		s.out.shapes = append(s.out.shapes, 1)
	case r.GetBatch() != nil:
		for _, x := range r.GetBatch().Series {
			s.add(x)
		}
		s.out.shapes = append(s.out.shapes, -len(r.GetBatch().Series))
	default:
		s.out.shapes = append(s.out.shapes, 0)
	}
	return nil
}

// ---------------------------------------------------------------------------------------------
// running the proxy

type proxyCfg struct {
	strategy  store.RetrievalStrategy
	lazyBuf   int
	batch     int64
	timeout   time.Duration
	selector  labels.Labels
	tsdbSel   *store.TSDBSelector
	prs       storepb.PartialResponseStrategy
	prDisable bool
}

func (c proxyCfg) String() string {
	return fmt.Sprintf("%s/buf%d/batch%d", c.strategy, c.lazyBuf, c.batch)
}

// runProxy sends req (strategy, batch size filled in from cfg) through a fresh ProxyStore over the
// given clients and returns what a SeriesServer received plus the error of the call.
func runProxy(clients []store.Client, cfg proxyCfg, req storepb.SeriesRequest) (*collected, error) {
	opts := []store.ProxyStoreOption{store.WithLazyRetrievalMaxBufferedResponsesForProxy(cfg.lazyBuf)}
	if cfg.tsdbSel != nil {
		opts = append(opts, store.WithTSDBSelector(cfg.tsdbSel))
	}
	sel := cfg.selector
	p := store.NewProxyStore(nil, nil, func() []store.Client { return clients }, component.Query, sel, cfg.timeout, cfg.strategy, opts...)
	req.ResponseBatchSize = cfg.batch
	req.PartialResponseStrategy = cfg.prs
	req.PartialResponseDisabled = cfg.prDisable
	ctx, cancel := context.WithCancel(context.Background())
	defer cancel()
	srv := &collectServer{ctx: ctx}
	err := p.Series(&req, srv)
	return &srv.out, err
}

// ---------------------------------------------------------------------------------------------
// helpers

func lsetKey(l labels.Labels) string { return l.String() }

func stripLabels(l labels.Labels, names map[string]struct{}) labels.Labels {
	if len(names) == 0 {
		return l
	}
	b := labels.NewScratchBuilder(l.Len())
	l.Range(func(x labels.Label) {
		if _, ok := names[x.Name]; !ok {
			b.Add(x.Name, x.Value)
		}
	})
	b.Sort()
	return b.Labels()
}

func sortedKeys[V any](m map[string]V) []string {
	ks := make([]string, 0, len(m))
	for k := range m {
		ks = append(ks, k)
	}
	sort.Strings(ks)
	return ks
}

func renderOut(out *collected) string {
	var sb strings.Builder
	for _, s := range out.series {
		sb.WriteString(s.lset.String())
		for _, c := range s.chunks {
			fmt.Fprintf(&sb, "[%d,%d #%04x]", c.MinTime, c.MaxTime, xxhash.Sum64String(keyOfProto(c))&0xffff)
		}
		sb.WriteByte(' ')
	}
	if len(out.warnings) > 0 {
		fmt.Fprintf(&sb, "warnings=%q", out.warnings)
	}
	return sb.String()
}

func renderStores(sts []*fakeStore, req *storepb.SeriesRequest) string {
	var sb strings.Builder
	for _, s := range sts {
		fmt.Fprintf(&sb, "%s(withoutReplica=%v hash=%v", s.name, s.withoutReplica, s.withHash)
		if len(s.lsets) > 0 {
			fmt.Fprintf(&sb, " lsets=%v", s.lsets)
		}
		sb.WriteString("):")
		for _, f := range s.frames(req) {
			sb.WriteByte(' ')
			sb.WriteString(f.String())
		}
		sb.WriteString(" | ")
	}
	return sb.String()
}
