package xproxy

// C06, second part: healthy stores that behave like real gRPC streams (Recv fails once the stream
// context is cancelled). Under WARN a store that did not fail must still contribute every series,
// so nothing in the proxy may cancel a healthy stream while another store is failing by hanging.
// The interesting mechanism is the per-frame timer of the lazy receivers: it must only run while
// Recv is in progress, not while the receiver waits for room in its bounded buffer (which happens
// exactly when the merge is stuck on the hanging store), also when a frame is a batch of series.
//
// Soundness: the only legitimate ways a healthy stream can be cancelled are (a) its own Recv taking
// longer than the frame timeout - our Recv returns at once, so that needs the process to be starved
// for a whole timeout inside a window of a few instructions - and (b) the request being over. To
// rule (a) out as a source of false alarms a failing case is repeated and only reported when it
// fails every time; the seeded defect this test is for fails deterministically.

import (
	"fmt"
	"strings"
	"testing"
	"time"

	"github.com/prometheus/prometheus/model/labels"
	"pgregory.net/rapid"

	"github.com/thanos-io/thanos/pkg/store"
	"github.com/thanos-io/thanos/pkg/store/storepb"
	"github.com/thanos-io/thanos/verifx/kit"
)

type c06cCase struct {
	healthyFrames []int // series per frame of the healthy store (1 = single-series frame)
	hangAfter     int   // frames the hanging store delivers before it hangs
	hangFrames    int
	lazyBuf       int
	batchOut      int64
	strategy      store.RetrievalStrategy
	timeout       time.Duration
}

func (c c06cCase) String() string {
	return fmt.Sprintf("healthy frames %v, hanging store hangs after %d of %d frames, %s buf=%d outbatch=%d timeout=%s",
		c.healthyFrames, c.hangAfter, c.hangFrames, c.strategy, c.lazyBuf, c.batchOut, c.timeout)
}

func c06cRun(c c06cCase) string {
	var hf []frameSpec
	n := 0
	for _, m := range c.healthyFrames {
		f := frameSpec{batch: m > 1}
		for j := 0; j < m; j++ {
			f.series = append(f.series, serSpec{lset: labels.FromStrings("a", fmt.Sprintf("h%04d", n)),
				chunks: []*chunkSpec{newRawChunk([]smpl{{int64(1000 + n), float64(n)}})}})
			n++
		}
		hf = append(hf, f)
	}
	var sf []frameSpec
	for j := 0; j < c.hangFrames; j++ {
		sf = append(sf, frameSpec{series: []serSpec{{lset: labels.FromStrings("a", fmt.Sprintf("s%04d", j)),
			chunks: []*chunkSpec{newRawChunk([]smpl{{int64(5000 + j), 1}})}}}})
	}
	h := &fakeStore{name: "healthy-store", mint: 0, maxt: 1 << 40, withoutReplica: true, withHash: true, honourCancel: true,
		frames: func(*storepb.SeriesRequest) []frameSpec { return hf }}
	s := &fakeStore{name: "hanging-store", mint: 0, maxt: 1 << 40, withoutReplica: true, withHash: true,
		frames: func(*storepb.SeriesRequest) []frameSpec { return sf }, fault: faultSpec{kind: faultStall, after: c.hangAfter},
		// the hanging store starts to hang a little after the healthy store has read its frames, so
		// that the healthy store's frame timer (if it wrongly keeps running) is the first to expire
		lastFramePause: c.timeout / 4}
	req := storepb.SeriesRequest{MinTime: 0, MaxTime: 1 << 39,
		Matchers: []storepb.LabelMatcher{{Type: storepb.LabelMatcher_RE, Name: "a", Value: ".+"}}}
	cfg := proxyCfg{strategy: c.strategy, lazyBuf: c.lazyBuf, batch: c.batchOut, timeout: c.timeout, prs: storepb.PartialResponseStrategy_WARN}
	out, err := runProxy([]store.Client{h, s}, cfg, req)
	if err != nil {
		return "WARN request failed: " + err.Error()
	}
	if len(h.harnessErrs)+len(s.harnessErrs) > 0 {
		return "harness: " + strings.Join(append(h.harnessErrs, s.harnessErrs...), "; ")
	}
	got := map[string]bool{}
	for _, x := range out.series {
		got[x.lset.Get("a")] = true
	}
	missing := 0
	first := ""
	for i := 0; i < n; i++ {
		k := fmt.Sprintf("h%04d", i)
		if !got[k] {
			missing++
			if first == "" {
				first = k
			}
		}
	}
	for _, w := range out.warnings {
		if strings.Contains(w, "healthy-store") {
			return fmt.Sprintf("the healthy store is reported as failed: %q (%d of its %d series missing)", w, missing, n)
		}
	}
	if missing > 0 {
		return fmt.Sprintf("%d of the %d series of the healthy store are missing (first %s); warnings %q", missing, n, first, out.warnings)
	}
	named := false
	for _, w := range out.warnings {
		if strings.Contains(w, "hanging-store") {
			named = true
		}
	}
	if !named {
		return fmt.Sprintf("no warning names the hanging store: %q", out.warnings)
	}
	return ""
}

// c06cCheck repeats a failing case: a genuine defect fails every time, starvation does not.
func c06cCheck(c c06cCase) string {
	msg := c06cRun(c)
	if msg == "" {
		return ""
	}
	for i := 0; i < 2; i++ {
		c.timeout *= 2
		if m := c06cRun(c); m == "" {
			return ""
		}
	}
	return msg
}

func TestVerifC06_HealthyStreamNotCancelled(t *testing.T) {
	rec := kit.For(t, "C06")
	// saved input of the seeded change "leave the frame timer running unless the buffer is already full"
	for _, c := range []c06cCase{
		{healthyFrames: []int{4, 4}, hangAfter: 2, hangFrames: 4, lazyBuf: 1, strategy: store.LazyRetrieval, timeout: 150 * time.Millisecond},
		{healthyFrames: []int{1, 6, 1}, hangAfter: 1, hangFrames: 2, lazyBuf: 3, strategy: store.LazyRetrieval, timeout: 150 * time.Millisecond},
		{healthyFrames: []int{5}, hangAfter: 1, hangFrames: 1, lazyBuf: 2, strategy: store.LazyRetrieval, timeout: 150 * time.Millisecond},
	} {
		if msg := c06cCheck(c); msg != "" {
			rec.Violation(t, "healthy stream cancelled while another store hangs: %s | %s", msg, c)
		}
		rec.Case("fixed "+c.String(), true, "fixed-input")
	}
	// Every case costs one frame timeout, so the number of cases is fixed here and not taken from
	// -rapid.checks; cases are drawn with Generator.Example from the process seed (no shrinking is
	// needed: a case is six small numbers).
	n := kit.Scale("c06cancel", 12, 100)
	gen := rapid.Custom(func(rt *rapid.T) c06cCase {
		c := c06cCase{timeout: 120 * time.Millisecond}
		nf := rapid.SampledFrom([]int{1, 2, 2, 3, 4}).Draw(rt, "healthyFrames")
		for i := 0; i < nf; i++ {
			m := 1
			if rapid.SampledFrom([]int{0, 1, 1}).Draw(rt, "isBatch") > 0 {
				m = rapid.SampledFrom([]int{2, 3, 4, 5, 6, 7, 8, 9}).Draw(rt, "batchLen")
			}
			c.healthyFrames = append(c.healthyFrames, m)
		}
		c.hangFrames = rapid.SampledFrom([]int{0, 1, 2, 3, 4}).Draw(rt, "hangFrames")
		c.hangAfter = rapid.IntRange(0, c.hangFrames).Draw(rt, "hangAfter")
		if c.hangAfter == 0 && c.hangFrames > 0 && rapid.IntRange(0, 3).Draw(rt, "forceLate") > 0 {
			c.hangAfter = 1
		}
		c.lazyBuf = rapid.SampledFrom([]int{1, 1, 2, 2, 3, 4, 6}).Draw(rt, "lazyBuf")
		c.batchOut = rapid.SampledFrom([]int64{0, 1, 3}).Draw(rt, "batchOut")
		c.strategy = rapid.SampledFrom([]store.RetrievalStrategy{store.LazyRetrieval, store.LazyRetrieval, store.EagerRetrieval}).Draw(rt, "strategy")
		return c
	})
	for i := 0; i < n; i++ {
		c := gen.Example(int(kit.Seed())*100003 + i)
		if msg := c06cCheck(c); msg != "" {
			rec.Violation(t, "healthy stream cancelled while another store hangs: %s | case: %s", msg, c)
		}
		total, maxBatch := 0, 0
		for _, m := range c.healthyFrames {
			total += m
			if m > maxBatch {
				maxBatch = m
			}
		}
		cls := []string{"cancel-aware", "strategy-" + string(c.strategy)}
		nt := c.strategy == store.LazyRetrieval && maxBatch > c.lazyBuf
		if nt {
			cls = append(cls, "batch-larger-than-lazy-buffer")
		}
		if total > c.lazyBuf {
			cls = append(cls, "healthy-producer-must-wait")
		}
		rec.Case("cancel "+c.String(), nt, cls...)
	}
}
