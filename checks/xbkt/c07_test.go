package xbkt

// C07 Label name/value APIs cover every label seen by Series.
// Targets: the real TSDBStore over F-memdb (tight label APIs, generated chunk cuts), the real BucketStore over
// F-blocks (1..3 blocks, colliding external labels, series only in some blocks) and a real ProxyStore over two
// TSDBStores and one BucketStore. Oracle (one direction, the APIs may over-approximate): for
// S = Series(selectors, range, withoutReplicaLabels): names(S) ⊆ LabelNames(same) and for every name n on S
// values_n(S) ⊆ LabelValues(n, same). Limits unset.

import (
	"context"
	"fmt"
	"sort"
	"strings"
	"testing"

	"github.com/go-kit/log"
	"github.com/prometheus/prometheus/model/labels"
	"go.uber.org/atomic"
	"pgregory.net/rapid"

	"github.com/thanos-io/thanos/pkg/component"
	"github.com/thanos-io/thanos/pkg/store"
	"github.com/thanos-io/thanos/pkg/store/storepb"
	storetestutil "github.com/thanos-io/thanos/pkg/store/storepb/testutil"
	"github.com/thanos-io/thanos/verifx/kit"
)

type c07Result struct {
	nonEmpty     bool
	hasExt       bool // some returned series carries an external label name
	dropped      bool // the drop list removed a stored or external label of a matching series
	series       int
	names, pairs int
}

// checkC07 runs the three APIs and returns an error text ("" = holds).
func checkC07(rt *rapid.T, st storepb.StoreServer, q lq, extNamesAll map[string]bool, storedHasDrop func(name string) bool) (string, c07Result) {
	var res c07Result
	ctx := context.Background()
	ms := mustMatchers(rt, q.ms)
	srv, err := runSeries(st, &storepb.SeriesRequest{MinTime: q.mint, MaxTime: q.maxt, Matchers: ms, WithoutReplicaLabels: q.drop,
		PartialResponseStrategy: storepb.PartialResponseStrategy_ABORT})
	if err != nil {
		return fmt.Sprintf("Series failed: %v", err), res
	}
	if len(srv.warnings) > 0 {
		return fmt.Sprintf("Series returned warnings: %v", srv.warnings), res
	}
	res.series = len(srv.frames)
	res.nonEmpty = len(srv.frames) > 0
	seen := map[string]map[string]bool{}
	for _, f := range srv.frames {
		f.lset.Range(func(l labels.Label) {
			if seen[l.Name] == nil {
				seen[l.Name] = map[string]bool{}
			}
			seen[l.Name][l.Value] = true
			if extNamesAll[l.Name] {
				res.hasExt = true
			}
		})
	}
	if res.nonEmpty {
		for _, d := range q.drop {
			if extNamesAll[d] || storedHasDrop(d) {
				res.dropped = true
			}
		}
	}
	ln, err := st.LabelNames(ctx, &storepb.LabelNamesRequest{Start: q.mint, End: q.maxt, Matchers: ms, WithoutReplicaLabels: q.drop,
		PartialResponseStrategy: storepb.PartialResponseStrategy_ABORT})
	if err != nil {
		return fmt.Sprintf("LabelNames failed: %v", err), res
	}
	names := map[string]bool{}
	for _, n := range ln.Names {
		names[n] = true
	}
	var seenNames []string
	for n := range seen {
		seenNames = append(seenNames, n)
	}
	sort.Strings(seenNames)
	for _, n := range seenNames {
		res.names++
		if !names[n] {
			return fmt.Sprintf("label name %q is on a returned series but not in LabelNames=%v (warnings %v)", n, ln.Names, ln.Warnings), res
		}
		lv, err := st.LabelValues(ctx, &storepb.LabelValuesRequest{Label: n, Start: q.mint, End: q.maxt, Matchers: ms, WithoutReplicaLabels: q.drop,
			PartialResponseStrategy: storepb.PartialResponseStrategy_ABORT})
		if err != nil {
			return fmt.Sprintf("LabelValues(%q) failed: %v", n, err), res
		}
		vals := map[string]bool{}
		for _, v := range lv.Values {
			vals[v] = true
		}
		for _, v := range sortedKeys(seen[n]) {
			res.pairs++
			if !vals[v] {
				return fmt.Sprintf("value %q of label %q is on a returned series but not in LabelValues(%q)=%v (warnings %v)", v, n, n, lv.Values, lv.Warnings), res
			}
		}
	}
	return "", res
}

func renderWorld(w []mSeries) string {
	var sb strings.Builder
	for i, s := range w {
		if i > 0 {
			sb.WriteByte(' ')
		}
		sb.WriteString(s.lset.String())
		for _, c := range s.chunks {
			fmt.Fprintf(&sb, "[%d..%d]", c[0].t, c[len(c)-1].t)
		}
	}
	return sb.String()
}

func worldHasName(ws ...[]mSeries) func(string) bool {
	return func(n string) bool {
		for _, w := range ws {
			for _, s := range w {
				if s.lset.Has(n) {
					return true
				}
			}
		}
		return false
	}
}

func c07Classes(res c07Result, q lq) (bool, []string) {
	var cl []string
	nt := res.nonEmpty && (res.hasExt || res.dropped)
	if !res.nonEmpty {
		cl = append(cl, "series-empty")
	} else {
		cl = append(cl, "series-nonempty")
	}
	if res.hasExt {
		cl = append(cl, "ext-label-on-series")
	}
	if res.dropped {
		cl = append(cl, "replica-label-dropped")
	}
	return nt, cl
}

func TestVerifC07_TSDB(t *testing.T) {
	rec := kit.For(t, "C07")
	nq := kit.Scale("c07tsdbq", 60, 120)
	rec.Check(t, func(rt *rapid.T) {
		world := genMemWorld(rt, "w_", 12)
		ext := genExt(rt, true, 0)
		db, err := newMemDB(world)
		if err != nil {
			rt.Fatalf("harness: %v", err)
		}
		st := newTSDBStore(db, ext)
		dmin, dmax, marks := memRange(world)
		mg := matcherGen{nonExt: nonExtNames([]labels.Labels{ext}), extVals: extValsOf([]labels.Labels{ext}), stored: storedValsOf(worldLsets(world)), maxN: 3}
		extAll := map[string]bool{}
		ext.Range(func(l labels.Label) { extAll[l.Name] = true })
		for i := 0; i < nq; i++ {
			ms, moved := mg.drawOutside(rt) // matcher evaluation itself is C10's subject (finding C10/dup-set-...)
			if moved {
				rec.Class("moved-out-of-C10-dup-set-class")
			}
			q := lq{ms: ms, drop: genDrop(rt)}
			q.mint, q.maxt = genRange(rt, dmin, dmax, marks)
			msg, res := checkC07(rt, st, q, extAll, worldHasName(world))
			if msg != "" {
				rt.Fatalf("C07 violated (TSDBStore): %s\nquery %s\next %s\nstored %s", msg, q, ext, renderWorld(world))
			}
			nt, cl := c07Classes(res, q)
			rec.Case(fmt.Sprintf("tsdb ext=%s %s | %s", ext, q, renderWorld(world)), nt, append(cl, "target-tsdb")...)
		}
	})
}

func blockHasName(bs *blockSet) func(string) bool {
	return func(n string) bool {
		for _, b := range bs.blocks {
			for _, s := range b.model {
				if s.lset.Has(n) {
					return true
				}
			}
		}
		return false
	}
}

func TestVerifC07_Bucket(t *testing.T) {
	rec := kit.For(t, "C07")
	nq := kit.Scale("c07bktq", 25, 40)
	rec.Check(t, func(rt *rapid.T) {
		specs := genBlocks(rt, 3, true, 14)
		bs, err := buildBlockSet(specs)
		if err != nil {
			rt.Fatalf("harness: %v (%s)", err, renderSpecs(specs))
		}
		defer bs.close()
		k := genKnobs(rt, "k_", bs)
		ls, err := newBucketStore(bs.bkt, k)
		if err != nil {
			rt.Fatalf("harness: bucket store: %v", err)
		}
		defer ls.close()
		dmin, dmax, marks := bs.dataRange()
		var exts []labels.Labels
		extAll := map[string]bool{}
		for _, sp := range specs {
			exts = append(exts, sp.ext)
			sp.ext.Range(func(l labels.Label) { extAll[l.Name] = true })
		}
		mg := matcherGen{nonExt: nonExtNames(exts), extVals: extValsOf(exts), stored: storedValsOf(specLsets(specs)), hiCard: 40, maxN: 3}
		for i := 0; i < nq; i++ {
			ms, moved := mg.drawOutside(rt) // matcher evaluation itself is C10's subject (finding C10/dup-set-...)
			if moved {
				rec.Class("moved-out-of-C10-dup-set-class")
			}
			q := lq{ms: ms, drop: genDrop(rt)}
			q.mint, q.maxt = genRange(rt, dmin, dmax, marks)
			msg, res := checkC07(rt, ls.st, q, extAll, blockHasName(bs))
			if msg != "" {
				rt.Fatalf("C07 violated (BucketStore): %s\nquery %s knobs %s\nblocks %s", msg, q, k, renderSpecs(specs))
			}
			nt, cl := c07Classes(res, q)
			if len(specs) > 1 {
				cl = append(cl, "multi-block")
			}
			rec.Case(fmt.Sprintf("bucket %s knobs %s | %s", q, k, renderSpecs(specs)), nt, append(cl, "target-bucket")...)
		}
	})
}

// proxyOver wires real stores behind a real ProxyStore.
func proxyOver(clients []store.Client, strategy store.RetrievalStrategy, selector ...labels.Labels) *store.ProxyStore {
	sel := labels.EmptyLabels()
	if len(selector) > 0 {
		sel = selector[0]
	}
	return store.NewProxyStore(log.NewNopLogger(), nil, func() []store.Client { return clients }, component.Query, sel, 0, strategy)
}

func asClient(name string, srv storepb.StoreServer, exts []labels.Labels, mint, maxt int64, withoutReplica bool) store.Client {
	return storetestutil.TestClient{StoreClient: storepb.ServerAsClient(srv, atomic.Bool{}), Name: name, ExtLset: exts,
		MinTime: mint, MaxTime: maxt, WithoutReplicaLabelsEnabled: withoutReplica}
}

type proxyScene struct {
	worlds  [][]mSeries
	exts    []labels.Labels // of the TSDB stores
	specs   []blockSpec
	bs      *blockSet
	ls      *liveStore
	proxy   *store.ProxyStore
	allExts []labels.Labels
	txt     string
	// sel: the proxy's own selector labels (thanos query --selector-label); no store and no series
	// carries them, matchers on them are answered by the proxy itself
	sel labels.Labels
}

func (p *proxyScene) close() {
	if p.ls != nil {
		p.ls.close()
	}
	if p.bs != nil {
		p.bs.close()
	}
}

// genProxyScene: 1..2 TSDBStores over F-memdb with distinct external label sets + optionally one BucketStore.
func genProxyScene(rt *rapid.T) *proxyScene {
	p := &proxyScene{}
	var clients []store.Client
	nt := rapid.IntRange(1, 2).Draw(rt, "ntsdb")
	used := map[string]bool{}
	for i := 0; i < nt; i++ {
		w := genMemWorld(rt, fmt.Sprintf("w%d_", i), 8)
		ext := genExt(rt, true, 1)
		if used[ext.String()] {
			// stores behind one proxy have distinct external label sets (duplicates are rejected by the endpoint set)
			ext = labels.NewBuilder(ext).Set("f", fmt.Sprintf("x%d", i)).Labels()
		}
		used[ext.String()] = true
		db, err := newMemDB(w)
		if err != nil {
			rt.Fatalf("harness: %v", err)
		}
		st := newTSDBStore(db, ext)
		mint, maxt := st.TimeRange()
		clients = append(clients, asClient(fmt.Sprintf("tsdb%d", i), st, []labels.Labels{ext}, mint, maxt, rapid.Bool().Draw(rt, "wr")))
		p.worlds = append(p.worlds, w)
		p.exts = append(p.exts, ext)
		p.allExts = append(p.allExts, ext)
	}
	if rapid.IntRange(0, 2).Draw(rt, "withBucket") > 0 {
		p.specs = genBlocks(rt, 2, true, 8)
		for i := range p.specs {
			for used[p.specs[i].ext.String()] {
				p.specs[i].ext = labels.NewBuilder(p.specs[i].ext).Set("f", fmt.Sprintf("y%d", i)).Labels()
			}
		}
		bs, err := buildBlockSet(p.specs)
		if err != nil {
			rt.Fatalf("harness: %v (%s)", err, renderSpecs(p.specs))
		}
		p.bs = bs
		ls, err := newBucketStore(bs.bkt, defaultKnobs())
		if err != nil {
			bs.close()
			rt.Fatalf("harness: bucket store: %v", err)
		}
		p.ls = ls
		var bexts []labels.Labels
		seen := map[string]bool{}
		for _, sp := range p.specs {
			if !seen[sp.ext.String()] {
				seen[sp.ext.String()] = true
				bexts = append(bexts, sp.ext)
			}
			p.allExts = append(p.allExts, sp.ext)
		}
		mint, maxt := ls.st.TimeRange()
		clients = append(clients, asClient("bucket", ls.st, bexts, mint, maxt, rapid.Bool().Draw(rt, "wrb")))
	}
	strategy := store.EagerRetrieval
	if rapid.Bool().Draw(rt, "lazyRetrieval") {
		strategy = store.LazyRetrieval
	}
	p.sel = labels.EmptyLabels()
	if rapid.IntRange(0, 2).Draw(rt, "selectorLabels") == 0 {
		p.sel = labels.FromStrings("querier", "leaf-1")
	}
	p.proxy = proxyOver(clients, strategy, p.sel)
	var sb strings.Builder
	for i, w := range p.worlds {
		fmt.Fprintf(&sb, "TSDB%d ext=%s [%s] ", i, p.exts[i], renderWorld(w))
	}
	if p.bs != nil {
		sb.WriteString("BUCKET " + renderSpecs(p.specs))
	}
	fmt.Fprintf(&sb, "strategy=%s selector=%s", strategy, p.sel)
	p.txt = sb.String()
	return p
}

func (p *proxyScene) ranges() (int64, int64, []int64) {
	lo, hi, marks := memRange(p.worlds...)
	if p.bs != nil {
		l2, h2, m2 := p.bs.dataRange()
		if l2 < lo {
			lo = l2
		}
		if h2 > hi {
			hi = h2
		}
		marks = append(marks, m2...)
	}
	return lo, hi, marks
}

func (p *proxyScene) storedHas() func(string) bool {
	f := worldHasName(p.worlds...)
	if p.bs == nil {
		return f
	}
	g := blockHasName(p.bs)
	return func(n string) bool { return f(n) || g(n) }
}

func TestVerifC07_Proxy(t *testing.T) {
	rec := kit.For(t, "C07")
	nq := kit.Scale("c07proxyq", 25, 40)
	rec.Check(t, func(rt *rapid.T) {
		p := genProxyScene(rt)
		defer p.close()
		dmin, dmax, marks := p.ranges()
		extAll := map[string]bool{}
		for _, e := range p.allExts {
			e.Range(func(l labels.Label) { extAll[l.Name] = true })
		}
		mg := matcherGen{nonExt: nonExtNames(p.allExts), extVals: extValsOf(p.allExts), stored: storedValsOf(worldLsets(p.worlds...), specLsets(p.specs)), hiCard: 40, maxN: 3}
		for i := 0; i < nq; i++ {
			ms, moved := mg.drawOutside(rt) // matcher evaluation itself is C10's subject (finding C10/dup-set-...)
			if moved {
				rec.Class("moved-out-of-C10-dup-set-class")
			}
			selMatcher := false
			if !p.sel.IsEmpty() && rapid.Bool().Draw(rt, "matcherOnSelectorLabel") {
				// a matcher the proxy's selector labels satisfy (layered queriers send them)
				selMatcher = true
				ms = append(ms, rapid.SampledFrom([]*labels.Matcher{
					labels.MustNewMatcher(labels.MatchEqual, "querier", "leaf-1"),
					labels.MustNewMatcher(labels.MatchRegexp, "querier", "leaf-.*"),
					labels.MustNewMatcher(labels.MatchNotEqual, "querier", "leaf-2"),
				}).Draw(rt, "selectorMatcher"))
			}
			q := lq{ms: ms, drop: genDrop(rt)}
			q.mint, q.maxt = genRange(rt, dmin, dmax, marks)
			msg, res := checkC07(rt, p.proxy, q, extAll, p.storedHas())
			if msg != "" {
				rt.Fatalf("C07 violated (ProxyStore): %s\nquery %s\nscene %s", msg, q, p.txt)
			}
			nt, cl := c07Classes(res, q)
			if p.bs != nil {
				cl = append(cl, "proxy-with-bucket")
			}
			if selMatcher {
				cl = append(cl, "matcher-on-proxy-selector-label")
			}
			rec.Case(fmt.Sprintf("proxy %s | %s", q, p.txt), nt, append(cl, "target-proxy")...)
		}
	})
}
