package xbkt

// C08 Stores present external labels consistently.
// Targets: TSDBStore over F-memdb, BucketStore over F-blocks, ProxyStore over both (the frame-splitting class of
// TSDBStore lives in checks/storei/c08_frames_test.go because maxBytesPerFrame is unexported).
// Oracle (brute force): a stored series s of a store with external labels ext takes part in the answer iff it
// has a chunk overlapping the range and every selector matches on override(s.labels, ext) (selectors on external
// names see the external value); it must be presented as override(s.labels, ext) minus the replica-label list.
// Checked per request: every returned label set is the presentation of such a series (external labels present
// with the external value, stored same-named values overridden, nothing from the drop list), every such
// presentation is returned, and a selector contradicting the external labels of a store yields nothing from it.

import (
	"fmt"
	"testing"

	"github.com/prometheus/prometheus/model/labels"
	"pgregory.net/rapid"

	"github.com/thanos-io/thanos/pkg/store/storepb"
	"github.com/thanos-io/thanos/verifx/kit"
)

// c08Source is one (external label set, stored series) unit: a TSDB store or one block.
type c08Source struct {
	ext    labels.Labels
	lsets  []labels.Labels
	inTime func(i int, mint, maxt int64) bool
	// block time range for BucketStore sources ([mint,maxt)); zero value = unbounded
	bounded      bool
	bmint, bmaxt int64
}

type c08Expect struct {
	want          map[string]bool // presented label sets
	collision     bool            // a participating series stores a label named like an external label of its source
	dropEffective bool            // the drop list removed a label of a participating series
	contradicted  int             // sources ruled out by a selector on one of their external labels
}

func c08Expected(srcs []c08Source, q lq) c08Expect {
	e := c08Expect{want: map[string]bool{}}
	for _, src := range srcs {
		contradict := false
		for _, m := range q.ms {
			if v := src.ext.Get(m.Name); v != "" && !m.Matches(v) {
				contradict = true
			}
		}
		if contradict {
			e.contradicted++
			continue
		}
		for i, l := range src.lsets {
			if !src.inTime(i, q.mint, q.maxt) {
				continue
			}
			full := overridden(l, src.ext)
			if !matchAll(q.ms, full) {
				continue
			}
			p := presented(l, src.ext, q.drop)
			e.want[p.String()] = true
			l.Range(func(x labels.Label) {
				if src.ext.Has(x.Name) {
					e.collision = true
				}
			})
			if p.Len() < full.Len() {
				e.dropEffective = true
			}
		}
	}
	return e
}

func memSource(w []mSeries, ext labels.Labels) c08Source {
	src := c08Source{ext: ext}
	for _, s := range w {
		src.lsets = append(src.lsets, s.lset)
	}
	src.inTime = func(i int, mint, maxt int64) bool { return w[i].overlaps(mint, maxt) }
	return src
}

func blockSources(bs *blockSet) []c08Source {
	var out []c08Source
	for _, b := range bs.blocks {
		b := b
		src := c08Source{ext: b.ext}
		for _, s := range b.model {
			src.lsets = append(src.lsets, s.lset)
		}
		src.inTime = func(i int, mint, maxt int64) bool { return b.model[i].chunksIn(mint, maxt) > 0 }
		out = append(out, src)
	}
	return out
}

// checkC08 returns an error text ("" = holds) for one request against one store.
func checkC08(rt *rapid.T, st storepb.StoreServer, srcs []c08Source, q lq) (string, c08Expect, int) {
	exp := c08Expected(srcs, q)
	srv, err := runSeries(st, &storepb.SeriesRequest{MinTime: q.mint, MaxTime: q.maxt, Matchers: mustMatchers(rt, q.ms), WithoutReplicaLabels: q.drop,
		PartialResponseStrategy: storepb.PartialResponseStrategy_ABORT})
	if err != nil {
		return fmt.Sprintf("Series failed: %v", err), exp, 0
	}
	if len(srv.warnings) > 0 {
		return fmt.Sprintf("Series returned warnings: %v", srv.warnings), exp, 0
	}
	got := labelSetsOf(srv.frames)
	for _, f := range srv.frames {
		for _, d := range q.drop {
			if f.lset.Has(d) {
				return fmt.Sprintf("returned series %s carries label %q that the request asked to drop", f.lset, d), exp, len(got)
			}
		}
		if len(srcs) == 1 {
			var bad string
			srcs[0].ext.Range(func(l labels.Label) {
				if hasString(q.drop, l.Name) {
					return
				}
				if f.lset.Get(l.Name) != l.Value {
					bad = fmt.Sprintf("returned series %s: external label %s=%q is presented as %q", f.lset, l.Name, l.Value, f.lset.Get(l.Name))
				}
			})
			if bad != "" {
				return bad, exp, len(got)
			}
		}
		if !exp.want[f.lset.String()] {
			return fmt.Sprintf("returned series %s is not the presentation (external labels override, minus %v) of any stored series matching the request; expected %v", f.lset, q.drop, sortedKeys(exp.want)), exp, len(got)
		}
	}
	for _, w := range sortedKeys(exp.want) {
		if !got[w] {
			return fmt.Sprintf("series %s expected but not returned; got %v", w, sortedKeys(got)), exp, len(got)
		}
	}
	return "", exp, len(got)
}

func c08Classes(exp c08Expect, n int, nsrc int) (bool, []string) {
	var cl []string
	if n == 0 {
		cl = append(cl, "answer-empty")
	} else {
		cl = append(cl, "answer-nonempty")
	}
	if exp.collision {
		cl = append(cl, "stored-label-collides-with-external")
	}
	if exp.dropEffective {
		cl = append(cl, "drop-list-removed-a-label")
	}
	if exp.contradicted > 0 {
		cl = append(cl, "selector-contradicts-external")
		if exp.contradicted == nsrc {
			cl = append(cl, "all-sources-contradicted")
		}
	}
	return n > 0 && (exp.collision || exp.dropEffective), cl
}

func TestVerifC08_TSDB(t *testing.T) {
	rec := kit.For(t, "C08")
	nq := kit.Scale("c08tsdbq", 60, 120)
	rec.Check(t, func(rt *rapid.T) {
		world := genMemWorld(rt, "w_", 12)
		ext := genExt(rt, true, 0)
		db, err := newMemDB(world)
		if err != nil {
			rt.Fatalf("harness: %v", err)
		}
		st := newTSDBStore(db, ext)
		dmin, dmax, marks := memRange(world)
		mg := matcherGen{nonExt: nonExtNames([]labels.Labels{ext}), extVals: extValsOf([]labels.Labels{ext}), stored: storedValsOf(worldLsets(world)), maxN: 3}
		srcs := []c08Source{memSource(world, ext)}
		for i := 0; i < nq; i++ {
			ms, moved := mg.drawOutside(rt) // matcher evaluation itself is C10's subject (finding C10/dup-set-...)
			if moved {
				rec.Class("moved-out-of-C10-dup-set-class")
			}
			q := lq{ms: ms, drop: genDrop(rt)}
			q.mint, q.maxt = genRange(rt, dmin, dmax, marks)
			msg, exp, n := checkC08(rt, st, srcs, q)
			if msg != "" {
				rt.Fatalf("C08 violated (TSDBStore): %s\nquery %s\next %s\nstored %s", msg, q, ext, renderWorld(world))
			}
			nt, cl := c08Classes(exp, n, 1)
			rec.Case(fmt.Sprintf("tsdb ext=%s %s | %s", ext, q, renderWorld(world)), nt, append(cl, "target-tsdb")...)
		}
	})
}

func TestVerifC08_Bucket(t *testing.T) {
	rec := kit.For(t, "C08")
	nq := kit.Scale("c08bktq", 25, 40)
	rec.Check(t, func(rt *rapid.T) {
		specs := genBlocks(rt, 3, true, 14)
		bs, err := buildBlockSet(specs)
		if err != nil {
			rt.Fatalf("harness: %v (%s)", err, renderSpecs(specs))
		}
		defer bs.close()
		k := genKnobs(rt, "k_", bs)
		ls, err := newBucketStore(bs.bkt, k)
		if err != nil {
			rt.Fatalf("harness: bucket store: %v", err)
		}
		defer ls.close()
		dmin, dmax, marks := bs.dataRange()
		var exts []labels.Labels
		for _, sp := range specs {
			exts = append(exts, sp.ext)
		}
		mg := matcherGen{nonExt: nonExtNames(exts), extVals: extValsOf(exts), stored: storedValsOf(specLsets(specs)), hiCard: 40, maxN: 3}
		srcs := blockSources(bs)
		for i := 0; i < nq; i++ {
			ms, moved := mg.drawOutside(rt) // matcher evaluation itself is C10's subject (finding C10/dup-set-...)
			if moved {
				rec.Class("moved-out-of-C10-dup-set-class")
			}
			q := lq{ms: ms, drop: genDrop(rt)}
			q.mint, q.maxt = genRange(rt, dmin, dmax, marks)
			msg, exp, n := checkC08(rt, ls.st, srcs, q)
			if msg != "" {
				rt.Fatalf("C08 violated (BucketStore): %s\nquery %s knobs %s\nblocks %s", msg, q, k, renderSpecs(specs))
			}
			nt, cl := c08Classes(exp, n, len(srcs))
			rec.Case(fmt.Sprintf("bucket %s knobs %s | %s", q, k, renderSpecs(specs)), nt, append(cl, "target-bucket")...)
		}
	})
}

func TestVerifC08_Proxy(t *testing.T) {
	rec := kit.For(t, "C08")
	nq := kit.Scale("c08proxyq", 25, 40)
	rec.Check(t, func(rt *rapid.T) {
		p := genProxyScene(rt)
		defer p.close()
		dmin, dmax, marks := p.ranges()
		mg := matcherGen{nonExt: nonExtNames(p.allExts), extVals: extValsOf(p.allExts), stored: storedValsOf(worldLsets(p.worlds...), specLsets(p.specs)), hiCard: 40, maxN: 3}
		var srcs []c08Source
		for i, w := range p.worlds {
			srcs = append(srcs, memSource(w, p.exts[i]))
		}
		if p.bs != nil {
			srcs = append(srcs, blockSources(p.bs)...)
		}
		for i := 0; i < nq; i++ {
			ms, moved := mg.drawOutside(rt) // matcher evaluation itself is C10's subject (finding C10/dup-set-...)
			if moved {
				rec.Class("moved-out-of-C10-dup-set-class")
			}
			q := lq{ms: ms, drop: genDrop(rt)}
			q.mint, q.maxt = genRange(rt, dmin, dmax, marks)
			msg, exp, n := checkC08(rt, p.proxy, srcs, q)
			if msg != "" {
				rt.Fatalf("C08 violated (ProxyStore): %s\nquery %s\nscene %s", msg, q, p.txt)
			}
			nt, cl := c08Classes(exp, n, len(srcs))
			rec.Case(fmt.Sprintf("proxy %s | %s", q, p.txt), nt, append(cl, "target-proxy")...)
		}
	})
}
