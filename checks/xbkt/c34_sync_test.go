package xbkt

// C34, store-gateway side: "every source sample remains served by some store gateway at all times"
// also has to hold WHILE a gateway synchronises. In the sync in which a compaction result first
// appears, the deduplicate filter already hides the result's sources; the gateway must keep serving
// them until the result is loaded. This test uses a real BucketStore with the filter chain of
// cmd/thanos/store.go over an in-memory bucket that gates the first read of the result's index, and
// queries the store while the sync is held there.
// Oracle: at every observation (before, during and after the sync) the Series API returns every
// sample of the source blocks. The gate makes "during" a state, not a moment: the verdict does not
// depend on timing (a sync that never reaches the gate is reported as inconclusive for that case).

import (
	"context"
	"fmt"
	"io"
	"os"
	"path/filepath"
	"sort"
	"strings"
	"sync"
	"testing"
	"time"

	"github.com/go-kit/log"
	"github.com/oklog/ulid/v2"
	"github.com/prometheus/client_golang/prometheus"
	"github.com/prometheus/prometheus/model/labels"
	"github.com/prometheus/prometheus/tsdb/chunkenc"
	"github.com/thanos-io/objstore"
	"pgregory.net/rapid"

	"github.com/thanos-io/thanos/pkg/block"
	"github.com/thanos-io/thanos/pkg/block/metadata"
	"github.com/thanos-io/thanos/pkg/store"
	"github.com/thanos-io/thanos/pkg/store/storepb"
	"github.com/thanos-io/thanos/verifx/kit"
)

// c34GateBucket blocks the first read of any object under gatePrefix until release is closed.
type c34GateBucket struct {
	objstore.Bucket
	mu      sync.Mutex
	prefix  string
	armed   bool
	hit     chan struct{}
	release chan struct{}
}

func (b *c34GateBucket) arm(prefix string) {
	b.mu.Lock()
	b.prefix, b.armed = prefix, true
	b.hit, b.release = make(chan struct{}), make(chan struct{})
	b.mu.Unlock()
}

func (b *c34GateBucket) wait(name string) {
	b.mu.Lock()
	if !b.armed || !strings.HasPrefix(name, b.prefix) {
		b.mu.Unlock()
		return
	}
	b.armed = false
	hit, rel := b.hit, b.release
	b.mu.Unlock()
	close(hit)
	<-rel
}

func (b *c34GateBucket) Get(ctx context.Context, name string) (io.ReadCloser, error) {
	b.wait(name)
	return b.Bucket.Get(ctx, name)
}
func (b *c34GateBucket) GetRange(ctx context.Context, name string, off, length int64) (io.ReadCloser, error) {
	b.wait(name)
	return b.Bucket.GetRange(ctx, name, off, length)
}
func (b *c34GateBucket) Attributes(ctx context.Context, name string) (objstore.ObjectAttributes, error) {
	b.wait(name)
	return b.Bucket.Attributes(ctx, name)
}

type c34Case struct {
	nSources int
	nSeries  int
	perBlock int
	mark     bool
}

func (c c34Case) String() string {
	return fmt.Sprintf("sources=%d series=%d samplesPerSeriesAndBlock=%d sourcesMarkedForDeletion=%v", c.nSources, c.nSeries, c.perBlock, c.mark)
}

type c34Srv struct {
	storepb.Store_SeriesServer
	ctx  context.Context
	got  map[string]map[int64]float64
	warn []string
}

func (s *c34Srv) Context() context.Context { return s.ctx }
func (s *c34Srv) add(x *storepb.Series) error {
	k := x.PromLabels().String()
	if s.got[k] == nil {
		s.got[k] = map[int64]float64{}
	}
	for _, c := range x.Chunks {
		if c.Raw == nil {
			continue
		}
		ch, err := chunkenc.FromData(chunkenc.EncXOR, c.Raw.Data)
		if err != nil {
			return err
		}
		it := ch.Iterator(nil)
		for it.Next() != chunkenc.ValNone {
			t, v := it.At()
			s.got[k][t] = v
		}
	}
	return nil
}
func (s *c34Srv) Send(r *storepb.SeriesResponse) error {
	switch {
	case r.GetWarning() != "":
		s.warn = append(s.warn, r.GetWarning())
	case r.GetSeries() != nil:
		return s.add(r.GetSeries())
	case r.GetBatch() != nil:
		for _, x := range r.GetBatch().Series {
			if err := s.add(x); err != nil {
				return err
			}
		}
	}
	return nil
}

// c34Served returns "" if the store serves every expected sample.
func c34Served(st *store.BucketStore, want map[string]map[int64]float64) string {
	srv := &c34Srv{ctx: context.Background(), got: map[string]map[int64]float64{}}
	err := st.Series(&storepb.SeriesRequest{MinTime: 0, MaxTime: 1 << 50,
		Matchers: []storepb.LabelMatcher{{Type: storepb.LabelMatcher_NEQ, Name: "a", Value: ""}}}, srv)
	if err != nil {
		return "Series failed: " + err.Error()
	}
	missing, total := 0, 0
	first := ""
	keys := make([]string, 0, len(want))
	for k := range want {
		keys = append(keys, k)
	}
	sort.Strings(keys)
	for _, k := range keys {
		for t, v := range want[k] {
			total++
			if gv, ok := srv.got[k][t]; !ok || gv != v {
				missing++
				if first == "" {
					first = fmt.Sprintf("%s@%d", k, t)
				}
			}
		}
	}
	if missing > 0 {
		return fmt.Sprintf("%d of %d source samples are not served (first %s); the store answered %d series", missing, total, first, len(srv.got))
	}
	return ""
}

func c34RunSync(c c34Case) (msg string, inconclusive string) {
	root, err := os.MkdirTemp("", "c34sync")
	if err != nil {
		return "", err.Error()
	}
	defer os.RemoveAll(root)
	ctx := context.Background()
	logger := log.NewNopLogger()
	ext := labels.FromStrings("e", "1")
	inner := objstore.NewInMemBucket()
	gate := &c34GateBucket{Bucket: inner}
	want := map[string]map[int64]float64{}
	var all []blockSeries
	var srcIDs []ulid.ULID
	const blockLen = 1000
	for b := 0; b < c.nSources; b++ {
		var ser []blockSeries
		for s := 0; s < c.nSeries; s++ {
			ls := labels.FromStrings("a", fmt.Sprint(s))
			var ss []smpl
			for i := 0; i < c.perBlock; i++ {
				t := int64(b*blockLen + 1 + i*(blockLen-2)/c.perBlock)
				ss = append(ss, smpl{t, float64(b*100 + s*10 + i)})
			}
			ser = append(ser, blockSeries{lset: ls, samples: ss})
			k := overridden(ls, ext).String()
			if want[k] == nil {
				want[k] = map[int64]float64{}
			}
			for _, x := range ss {
				want[k][x.t] = x.v
			}
		}
		bdir := filepath.Join(root, fmt.Sprintf("src%d", b))
		_ = os.MkdirAll(bdir, 0o755)
		dir, err := createBlock(ser, bdir, 1_000_000)
		if err != nil {
			return "", "createBlock: " + err.Error()
		}
		if _, err := metadata.InjectThanos(logger, dir, metadata.Thanos{Labels: ext.Map(), Source: metadata.TestSource}, nil); err != nil {
			return "", err.Error()
		}
		if err := block.Upload(ctx, logger, inner, dir, metadata.NoneFunc); err != nil {
			return "", err.Error()
		}
		m, err := metadata.ReadFromDir(dir)
		if err != nil {
			return "", err.Error()
		}
		srcIDs = append(srcIDs, m.ULID)
		if b == 0 {
			all = ser
		} else {
			for s := range all {
				all[s].samples = append(all[s].samples, ser[s].samples...)
			}
		}
	}
	// the compaction result: one block with the union of the data, sources = the source blocks
	rdir := filepath.Join(root, "result")
	_ = os.MkdirAll(rdir, 0o755)
	resDir, err := createBlock(all, rdir, 1_000_000)
	if err != nil {
		return "", "createBlock(result): " + err.Error()
	}
	if _, err := metadata.InjectThanos(logger, resDir, metadata.Thanos{Labels: ext.Map(), Source: metadata.CompactorSource}, nil); err != nil {
		return "", err.Error()
	}
	rm, err := metadata.ReadFromDir(resDir)
	if err != nil {
		return "", err.Error()
	}
	rm.Compaction.Level = 2
	rm.Compaction.Sources = srcIDs
	if err := rm.WriteToDir(logger, resDir); err != nil {
		return "", err.Error()
	}

	sdir := filepath.Join(root, "store")
	ibkt := objstore.WithNoopInstr(gate)
	fetcher, err := block.NewMetaFetcher(logger, 2, ibkt, block.NewConcurrentLister(logger, ibkt), filepath.Join(sdir, "meta"), nil,
		[]block.MetadataFilter{block.NewIgnoreDeletionMarkFilter(logger, ibkt, 24*time.Hour, 2), block.NewDeduplicateFilter(2)})
	if err != nil {
		return "", err.Error()
	}
	st, err := store.NewBucketStore(ibkt, fetcher, filepath.Join(sdir, "data"),
		store.NewChunksLimiterFactory(0), store.NewSeriesLimiterFactory(0), store.NewBytesLimiterFactory(0),
		store.NewGapBasedPartitioner(512), 2, 32, false, false, time.Minute, store.WithRegistry(prometheus.NewRegistry()))
	if err != nil {
		return "", err.Error()
	}
	defer st.Close()
	if err := st.SyncBlocks(ctx); err != nil {
		return "", "initial sync: " + err.Error()
	}
	if m := c34Served(st, want); m != "" {
		return "", "harness: before the compaction result exists: " + m
	}
	// the compactor uploads the result (and, in half of the cases, has already marked the sources)
	if err := block.Upload(ctx, logger, inner, resDir, metadata.NoneFunc); err != nil {
		return "", err.Error()
	}
	if c.mark {
		for _, id := range srcIDs {
			if err := block.MarkForDeletion(ctx, logger, inner, id, "compacted", prometheus.NewCounter(prometheus.CounterOpts{})); err != nil {
				return "", err.Error()
			}
		}
	}
	gate.arm(rm.ULID.String() + "/index")
	done := make(chan error, 1)
	go func() { done <- st.SyncBlocks(ctx) }()
	select {
	case <-gate.hit:
	case err := <-done:
		return "", fmt.Sprintf("the sync finished without reading the result's index (err=%v)", err)
	case <-time.After(60 * time.Second):
		close(gate.release)
		<-done
		return "", "the sync did not reach the result's index within 60s"
	}
	// the sync is now parked inside the load of the result block: observe the store
	for i := 0; i < 40 && msg == ""; i++ {
		if m := c34Served(st, want); m != "" {
			msg = "while the gateway is loading the compaction result: " + m
		}
		time.Sleep(500 * time.Microsecond)
	}
	close(gate.release)
	if err := <-done; err != nil && msg == "" {
		return "", "sync failed: " + err.Error()
	}
	if msg == "" {
		if m := c34Served(st, want); m != "" {
			msg = "after the sync that loaded the compaction result: " + m
		}
	}
	return msg, ""
}

func TestVerifC34_StoreSync(t *testing.T) {
	rec := kit.For(t, "C34")
	n := kit.Scale("c34sync", 6, 40)
	gen := rapid.Custom(func(rt *rapid.T) c34Case {
		return c34Case{
			nSources: rapid.SampledFrom([]int{2, 2, 3, 4}).Draw(rt, "sources"),
			nSeries:  rapid.SampledFrom([]int{1, 2, 5}).Draw(rt, "series"),
			perBlock: rapid.SampledFrom([]int{1, 3, 20}).Draw(rt, "samples"),
			mark:     rapid.Bool().Draw(rt, "mark"),
		}
	})
	for i := 0; i < n; i++ {
		c := gen.Example(int(kit.Seed())*257 + i)
		msg, inc := c34RunSync(c)
		if inc != "" {
			rec.Note("store-sync case inconclusive: %s (%s)", inc, c)
			rec.Class("store-sync-inconclusive")
			continue
		}
		if msg != "" {
			rec.Violation(t, "%s | case: %s", msg, c)
		}
		rec.Case(fmt.Sprintf("store-sync #%d %s", i, c), true, "store-sync", fmt.Sprintf("store-sync-sources-%d", c.nSources))
	}
}
