package xbkt

// C10 Store gateway answers equal a direct TSDB read of the same blocks.
// Domain: 1..4 generated blocks (same or different external labels, time-partitioned or overlapping windows of
// one logical series set, label cardinalities 1..40, sparse and dense series, chunk ranges that give 1..many
// chunks per series) uploaded to an in-memory bucket; a history of queries (fresh, repeated, same selector with
// another range) run against 2..3 BucketStore instances with different knobs (index cache off / tiny / large,
// lazy expanded postings with forcing knobs, series batch size, index-header sampling, partitioner gap, chunk
// pool). Oracle: differential against tsdb.OpenBlock + NewBlockChunkQuerier(DisableTrimming) per block, external
// label matchers resolved against the block's external labels, the remaining matchers handed over unchanged
// (none remaining => nothing on both sides). Same series (labels + external labels), same chunks
// (MinTime, MaxTime, encoding, bytes); since every knob setting and every repetition is compared with the same
// reference, the answers are also equal across knobs and across the history.

import (
	"context"
	"fmt"
	"sort"
	"strings"
	"testing"

	"github.com/oklog/ulid/v2"
	"github.com/prometheus/prometheus/model/labels"
	"github.com/prometheus/prometheus/storage"
	"github.com/prometheus/prometheus/tsdb"
	"pgregory.net/rapid"

	"github.com/thanos-io/thanos/pkg/store/storepb"
	"github.com/thanos-io/thanos/verifx/kit"
)

type c10Query struct {
	ms         []*labels.Matcher
	mint, maxt int64
}

func (q c10Query) String() string {
	return fmt.Sprintf("%s@[%d,%d]", renderMatchers(q.ms), q.mint, q.maxt)
}

// refRead is O-tsdb: label string -> chunk multiset.
func refRead(bs *blockSet, q c10Query) (map[string]map[chunkKey]int, error) {
	out := map[string]map[chunkKey]int{}
	ctx := context.Background()
	for _, b := range bs.blocks {
		rest, ok := resolveExt(q.ms, b.ext)
		if !ok || len(rest) == 0 {
			continue
		}
		cq, err := tsdb.NewBlockChunkQuerier(b.blk, q.mint, q.maxt)
		if err != nil {
			return nil, err
		}
		set := cq.Select(ctx, true, &storage.SelectHints{Start: q.mint, End: q.maxt, DisableTrimming: true}, rest...)
		for set.Next() {
			s := set.At()
			key := overridden(s.Labels(), b.ext).String()
			it := s.Iterator(nil)
			n := 0
			for it.Next() {
				m := it.At()
				if out[key] == nil {
					out[key] = map[chunkKey]int{}
				}
				out[key][chunkKey{mint: m.MinTime, maxt: m.MaxTime, enc: int(m.Chunk.Encoding()) - 1, data: string(m.Chunk.Bytes())}]++
				n++
			}
			if err := it.Err(); err != nil {
				_ = cq.Close()
				return nil, err
			}
		}
		if err := set.Err(); err != nil {
			_ = cq.Close()
			return nil, err
		}
		_ = cq.Close()
	}
	return out, nil
}

func groupFrames(frames []gotSeries) map[string]map[chunkKey]int {
	out := map[string]map[chunkKey]int{}
	for _, f := range frames {
		k := f.lset.String()
		if out[k] == nil {
			out[k] = map[chunkKey]int{}
		}
		for _, c := range f.chunks {
			out[k][c]++
		}
	}
	return out
}

// diffAnswers returns "" if got equals want: same label sets, per label set the same set of distinct chunks,
// and no chunk more often than the reference has it (identical chunks of different blocks may be deduplicated).
func diffAnswers(got, want map[string]map[chunkKey]int) string {
	var keys []string
	for k := range want {
		keys = append(keys, k)
	}
	for k := range got {
		if _, ok := want[k]; !ok {
			keys = append(keys, k)
		}
	}
	sort.Strings(keys)
	for _, k := range keys {
		g, okG := got[k]
		w, okW := want[k]
		if !okG {
			return fmt.Sprintf("series %s missing (reference has %d chunks)", k, len(w))
		}
		if !okW {
			return fmt.Sprintf("series %s invented (%d chunks)", k, len(g))
		}
		for c, n := range w {
			if g[c] == 0 {
				return fmt.Sprintf("series %s: chunk %s missing (reference x%d); got %s", k, c, n, renderChunkSet(g))
			}
		}
		for c, n := range g {
			if w[c] == 0 {
				return fmt.Sprintf("series %s: chunk %s invented; reference %s", k, c, renderChunkSet(w))
			}
			if n > w[c] {
				return fmt.Sprintf("series %s: chunk %s returned %d times, reference has it %d times", k, c, n, w[c])
			}
		}
	}
	return ""
}

func renderChunkSet(m map[chunkKey]int) string {
	var ss []string
	for c, n := range m {
		ss = append(ss, fmt.Sprintf("%sx%d", c, n))
	}
	sort.Strings(ss)
	return strings.Join(ss, " ")
}

// genC10Blocks draws the block specs. Stored names never collide with external names here (collisions are
// C08's domain: there two stored series can be presented under the same label set).
func genC10Blocks(rt *rapid.T, maxBlocks int) []blockSpec {
	return genBlocks(rt, maxBlocks, false, 25)
}

// genBlocks: with collide the external label sets may use the stored names a, b and the series may carry
// stored labels r, e (named like external / replica labels).
func genBlocks(rt *rapid.T, maxBlocks int, collide bool, maxSeries int) []blockSpec {
	hiCard := rapid.SampledFrom([]int{1, 3, 8, 20, 40}).Draw(rt, "hiCard")
	forbid := map[string]bool{"e": true, "f": true, "r": true}
	var extra []string
	if collide {
		forbid = nil
		if rapid.Bool().Draw(rt, "storedR") {
			extra = append(extra, "r")
		}
		if rapid.IntRange(0, 3).Draw(rt, "storedE") == 0 {
			extra = append(extra, "e")
		}
	}
	lsets := genLabelSets(rt, 2, maxSeries, forbid, extra, hiCard)
	type ser struct {
		lset labels.Labels
		smp  []smpl
	}
	all := make([]ser, len(lsets))
	for i, l := range lsets {
		var n int
		switch rapid.IntRange(0, 9).Draw(rt, "density") {
		case 0:
			n = 1
		case 1, 2:
			n = rapid.IntRange(2, 5).Draw(rt, "nsparse")
		case 3:
			n = rapid.IntRange(121, 260).Draw(rt, "nbig") // crosses the 120-samples-per-chunk cut
		default:
			n = rapid.IntRange(5, 60).Draw(rt, "ndense")
		}
		step := rapid.SampledFrom([]int64{1, 3, 10, 40}).Draw(rt, "step")
		ts := genTimes(rt, rapid.Int64Range(0, 500).Draw(rt, "start"), n, step)
		s := ser{lset: l}
		for j, t := range ts {
			s.smp = append(s.smp, smpl{t, float64(i*1000 + j)})
		}
		all[i] = s
	}
	nb := rapid.IntRange(1, maxBlocks).Draw(rt, "nblocks")
	sameExt := rapid.Bool().Draw(rt, "sameExt")
	ext0 := genExt(rt, collide, 1)
	partitioned := rapid.Bool().Draw(rt, "partitioned")
	var cuts []int64
	for i := 0; i < nb-1; i++ {
		cuts = append(cuts, rapid.Int64Range(0, 1500).Draw(rt, "cut"))
	}
	sort.Slice(cuts, func(i, j int) bool { return cuts[i] < cuts[j] })
	var specs []blockSpec
	for bi := 0; bi < nb; bi++ {
		sp := blockSpec{ext: ext0, chunkRange: rapid.SampledFrom([]int64{20, 50, 200, 1000, 1_000_000}).Draw(rt, "chunkRange")}
		if !sameExt && bi > 0 {
			sp.ext = genExt(rt, collide, 1)
		}
		lo, hi := int64(-1), int64(1<<40)
		if partitioned {
			if bi > 0 {
				lo = cuts[bi-1]
			}
			if bi < nb-1 {
				hi = cuts[bi]
			}
		} else {
			lo = rapid.Int64Range(-1, 800).Draw(rt, "wlo")
			hi = lo + rapid.Int64Range(1, 3000).Draw(rt, "wlen")
		}
		keepAll := rapid.IntRange(0, 2).Draw(rt, "keepAll") == 0
		for _, s := range all {
			if !keepAll && rapid.IntRange(0, 3).Draw(rt, "keep") == 0 {
				continue
			}
			var in []smpl
			for _, x := range s.smp {
				if x.t >= lo && x.t < hi {
					in = append(in, x)
				}
			}
			if len(in) == 0 {
				continue
			}
			sp.series = append(sp.series, blockSeries{lset: s.lset, samples: in})
		}
		if len(sp.series) == 0 {
			// a block needs at least one sample
			sp.series = append(sp.series, blockSeries{lset: all[0].lset, samples: []smpl{{all[0].smp[0].t, 1}}})
		}
		specs = append(specs, sp)
	}
	return specs
}

func renderSpecs(specs []blockSpec) string {
	var sb strings.Builder
	for i, sp := range specs {
		fmt.Fprintf(&sb, "B%d ext=%s cr=%d [", i, sp.ext.String(), sp.chunkRange)
		for j, s := range sp.series {
			if j > 0 {
				sb.WriteByte(' ')
			}
			fmt.Fprintf(&sb, "%s:%d@%d..%d", s.lset.String(), len(s.samples), s.samples[0].t, s.samples[len(s.samples)-1].t)
		}
		sb.WriteString("] ")
	}
	return sb.String()
}

func genKnobs(rt *rapid.T, label string, bs *blockSet) storeKnobs {
	k := defaultKnobs()
	k.indexCache = rapid.SampledFrom([]int{0, 0, 600, 4000, 1 << 20}).Draw(rt, label+"cache")
	k.lazy = rapid.IntRange(0, 4).Draw(rt, label+"lazy") > 1
	switch rapid.IntRange(0, 3).Draw(rt, label+"estMode") {
	case 0: // option not set: 64 KiB
	case 1: // what `thanos store` computes from the index stats of the block meta
		k.estFromStats = map[ulid.ULID]int64{}
		for _, b := range bs.blocks {
			k.estFromStats[b.id] = b.statsSeriesMax
		}
	case 2:
		k.estSeriesSize = 65536
	default: // small fixed estimates (>= 16: series entries are 16-byte aligned, the stats never give less)
		k.estSeriesSize = rapid.SampledFrom([]uint64{16, 32, 64, 128}).Draw(rt, label+"est")
	}
	k.matchRatio = rapid.SampledFrom([]float64{0.05, 0.5, 0.9, 1, 1}).Draw(rt, label+"ratio")
	if k.lazy && rapid.Bool().Draw(rt, label+"force") {
		// with ratio 1 every posting group after the first one is expanded lazily
		k.matchRatio = 1
	}
	k.maxKeyRatio = rapid.SampledFrom([]float64{0, 0, 0.1, 1, 100}).Draw(rt, label+"keyRatio")
	k.batchSize = rapid.SampledFrom([]int{1, 2, 3, 7, 64}).Draw(rt, label+"batch")
	k.sampling = rapid.SampledFrom([]int{1, 2, 3, 8, 32, 64}).Draw(rt, label+"sampling")
	k.gap = rapid.SampledFrom([]uint64{0, 1, 16, 512, 1 << 20}).Draw(rt, label+"gap")
	k.chunkPool = rapid.Bool().Draw(rt, label+"pool")
	return k
}

func runSeries(st storepb.StoreServer, req *storepb.SeriesRequest) (*collectSrv, error) {
	srv := newCollectSrv()
	err := st.Series(req, srv)
	return srv, err
}

// c10RegressDupSet: one block {a="1"},{a="2"}; {a=~"1|1|2", a!="1"} must return only a="2".
func c10RegressDupSet() string {
	specs := []blockSpec{{ext: labels.FromStrings("e", "1"), chunkRange: 1_000_000, series: []blockSeries{
		{lset: labels.FromStrings("a", "1"), samples: []smpl{{10, 1}}},
		{lset: labels.FromStrings("a", "2"), samples: []smpl{{10, 2}}},
	}}}
	bs, err := buildBlockSet(specs)
	if err != nil {
		return "harness: " + err.Error()
	}
	defer bs.close()
	ls, err := newBucketStore(bs.bkt, defaultKnobs())
	if err != nil {
		return "harness: " + err.Error()
	}
	defer ls.close()
	q := c10Query{ms: []*labels.Matcher{labels.MustNewMatcher(labels.MatchRegexp, "a", "1|1|2"), labels.MustNewMatcher(labels.MatchNotEqual, "a", "1")}, mint: 0, maxt: 100}
	ref, err := refRead(bs, q)
	if err != nil {
		return "harness: " + err.Error()
	}
	ms, _ := storepb.PromMatchersToMatchers(q.ms...)
	srv, err := runSeries(ls.st, &storepb.SeriesRequest{MinTime: q.mint, MaxTime: q.maxt, Matchers: ms})
	if err != nil {
		return "Series failed: " + err.Error()
	}
	if d := diffAnswers(groupFrames(srv.frames), ref); d != "" {
		return fmt.Sprintf("block {a=\"1\"},{a=\"2\"}, query %s: %s", q, d)
	}
	return ""
}

func TestVerifC10(t *testing.T) {
	rec := kit.For(t, "C10")
	maxQ := kit.Scale("c10queries", 30, 40)
	known := kit.KnownFindings("C10")
	// regression input of finding C10/dup-set-matcher-minus-empty-matcher
	if msg := c10RegressDupSet(); msg != "" {
		if strings.HasPrefix(msg, "harness:") {
			t.Fatalf("%s", msg)
		}
		if known[sigC10DupSet] {
			rec.Known(sigC10DupSet, msg)
		} else {
			rec.Violation(t, "regression dup-set: %s", msg)
		}
	}
	rec.Check(t, func(rt *rapid.T) {
		specs := genC10Blocks(rt, 4)
		bs, err := buildBlockSet(specs)
		if err != nil {
			rt.Fatalf("harness: %v (%s)", err, renderSpecs(specs))
		}
		defer bs.close()
		dmin, dmax, marks := bs.dataRange()

		var exts []labels.Labels
		for _, sp := range specs {
			exts = append(exts, sp.ext)
		}
		mg := matcherGen{nonExt: []string{"a", "__name__", "h", "b", "c", "d", "q"}, extVals: extValsOf(exts, "e", "f", "r"), stored: storedValsOf(specLsets(specs)), hiCard: 40, maxN: 3}
		// history
		nq := rapid.IntRange(10, maxQ).Draw(rt, "nq")
		var hist []c10Query
		for i := 0; i < nq; i++ {
			kind := rapid.IntRange(0, 4).Draw(rt, "qkind")
			switch {
			case kind == 0 && len(hist) > 0: // exact repeat
				hist = append(hist, hist[rapid.IntRange(0, len(hist)-1).Draw(rt, "rep")])
			case kind == 1 && len(hist) > 0: // same selector, other range
				q := hist[rapid.IntRange(0, len(hist)-1).Draw(rt, "var")]
				q.mint, q.maxt = genRange(rt, dmin, dmax, marks)
				hist = append(hist, q)
			default:
				var q c10Query
				q.ms = mg.draw(rt)
				if known[sigC10DupSet] && dupSetTrigger(q.ms) {
					rec.Excluded(sigC10DupSet)
					q.ms = dedupSets(q.ms)
				}
				q.mint, q.maxt = genRange(rt, dmin, dmax, marks)
				hist = append(hist, q)
			}
		}
		// reference answers (computed once per distinct query)
		refs := make([]map[string]map[chunkKey]int, len(hist))
		for i, q := range hist {
			r, err := refRead(bs, q)
			if err != nil {
				rt.Fatalf("harness: reference read: %v", err)
			}
			refs[i] = r
		}

		nstores := rapid.IntRange(2, 3).Draw(rt, "nstores")
		nontrivial := false
		classes := map[string]bool{}
		var knobsTxt []string
		for si := 0; si < nstores; si++ {
			k := genKnobs(rt, fmt.Sprintf("k%d_", si), bs)
			knobsTxt = append(knobsTxt, k.String())
			ls, err := newBucketStore(bs.bkt, k)
			if err != nil {
				rt.Fatalf("harness: bucket store: %v", err)
			}
			seen := map[string]bool{}
			for qi, q := range hist {
				var hits0 int64
				if ls.cache != nil {
					hits0 = ls.cache.hits()
				}
				lazy0 := ls.lazyCount()
				srv, err := runSeries(ls.st, &storepb.SeriesRequest{MinTime: q.mint, MaxTime: q.maxt, Matchers: mustMatchers(rt, q.ms)})
				if err != nil {
					ls.close()
					rt.Fatalf("C10 violated: Series failed: %v\nquery #%d %s knobs %s\nblocks %s", err, qi, q, k, renderSpecs(specs))
				}
				if len(srv.warnings) > 0 {
					ls.close()
					rt.Fatalf("C10 violated: unexpected warnings %v\nquery #%d %s knobs %s\nblocks %s", srv.warnings, qi, q, k, renderSpecs(specs))
				}
				got := groupFrames(srv.frames)
				if d := diffAnswers(got, refs[qi]); d != "" {
					ls.close()
					rt.Fatalf("C10 violated: %s\nquery #%d %s (repeat=%v) knobs %s\nblocks %s", d, qi, q, seen[q.String()], k, renderSpecs(specs))
				}
				nonEmpty := len(got) > 0
				cacheHit := ls.cache != nil && ls.cache.hits() > hits0
				lazyUsed := ls.lazyCount() > lazy0
				if nonEmpty {
					rec.Class("query-nonempty")
					if cacheHit && seen[q.String()] {
						classes["cache-hit-on-repeat"] = true
						rec.Class("q-cache-hit-on-repeat")
						nontrivial = true
					}
					if lazyUsed {
						classes["lazy-postings-used"] = true
						rec.Class("q-lazy-used")
						nontrivial = true
					}
					if k.sampling > 1 {
						classes["sampling>1"] = true
						nontrivial = true
					}
					multi := false
					for _, cs := range got {
						if len(cs) > 1 {
							multi = true
						}
					}
					if multi {
						classes["multi-chunk-series"] = true
					}
				} else {
					rec.Class("query-empty")
				}
				seen[q.String()] = true
			}
			ls.close()
		}
		if len(specs) > 1 {
			classes["multi-block"] = true
		}
		var cl []string
		for c := range classes {
			cl = append(cl, c)
		}
		sort.Strings(cl)
		var qs []string
		for _, q := range hist {
			qs = append(qs, q.String())
		}
		rec.Case(fmt.Sprintf("%s | %s | %s", renderSpecs(specs), strings.Join(knobsTxt, " ; "), strings.Join(qs, " ")), nontrivial, cl...)
	})
}
