package xbkt

// C09 Series request limits are enforced.
// Domain: F-blocks (1..3 blocks, series present in several blocks, series without chunks in range), selectors,
// series limit and chunk limit drawn around the true counts (count-1, count, count+1, 0 = off), lazy expanded
// postings on/off with forcing knobs, series batch size 1..n, index cache on/off.
// Oracle (brute force over the decoded block indexes): per queried block lo_s = matching series with >=1 chunk
// in range, hi_s = all series matching the selector, c = chunks in range of the matching series.
//   success  => returned series <= series limit, returned chunks <= chunk limit, answer == unlimited answer
//   sum(lo_s) > series limit or sum(c) > chunk limit  => must fail
//   sum(hi_s) <= series limit and sum(c) <= chunk limit => must succeed
//   every failure carries codes.ResourceExhausted.

import (
	"fmt"
	"sort"
	"strings"
	"testing"

	"github.com/prometheus/prometheus/model/labels"
	"google.golang.org/grpc/codes"
	"google.golang.org/grpc/status"
	"pgregory.net/rapid"

	"github.com/thanos-io/thanos/pkg/store/storepb"
	"github.com/thanos-io/thanos/verifx/kit"
)

type c09Counts struct {
	lo, hi, chunks uint64
	multiBlock     bool // some matching series is in range in >=2 blocks
}

// c09Count is the brute-force count over the block models.
func c09Count(bs *blockSet, q c10Query) c09Counts {
	var out c09Counts
	seen := map[string]int{}
	for _, b := range bs.blocks {
		if b.maxt <= q.mint || b.mint > q.maxt {
			continue // block not touched by the range ([mint,maxt) vs closed query range)
		}
		rest, ok := resolveExt(q.ms, b.ext)
		if !ok || len(rest) == 0 {
			continue
		}
		for _, s := range b.model {
			if !matchAll(rest, s.lset) {
				continue
			}
			out.hi++
			if n := s.chunksIn(q.mint, q.maxt); n > 0 {
				out.lo++
				out.chunks += uint64(n)
				k := overridden(s.lset, b.ext).String()
				seen[k]++
				if seen[k] > 1 {
					out.multiBlock = true
				}
			}
		}
	}
	return out
}

func around(rt *rapid.T, label string, counts ...uint64) uint64 {
	var cands []uint64
	for _, c := range counts {
		for _, d := range []int64{-1, 0, 1} {
			v := int64(c) + d
			if v >= 1 {
				cands = append(cands, uint64(v))
			}
		}
	}
	cands = append(cands, 0, 0, 1, 1000)
	return rapid.SampledFrom(cands).Draw(rt, label)
}

func within1(limit uint64, counts ...uint64) bool {
	if limit == 0 {
		return false
	}
	for _, c := range counts {
		if c >= 1 && limit+1 >= c && limit <= c+1 {
			return true
		}
	}
	return false
}

func countAnswer(frames []gotSeries) (series, chunks uint64) {
	for _, f := range frames {
		series++
		chunks += uint64(len(f.chunks))
	}
	return
}

func TestVerifC09(t *testing.T) {
	rec := kit.For(t, "C09")
	nQueries := kit.Scale("c09queries", 6, 8)
	nLimits := kit.Scale("c09limits", 6, 8)
	rec.Check(t, func(rt *rapid.T) {
		specs := genC10Blocks(rt, 3)
		bs, err := buildBlockSet(specs)
		if err != nil {
			rt.Fatalf("harness: %v (%s)", err, renderSpecs(specs))
		}
		defer bs.close()
		dmin, dmax, marks := bs.dataRange()
		var exts []labels.Labels
		for _, sp := range specs {
			exts = append(exts, sp.ext)
		}
		mg := matcherGen{nonExt: []string{"a", "__name__", "h", "b", "c", "d", "q"}, extVals: extValsOf(exts, "e", "f", "r"), stored: storedValsOf(specLsets(specs)), hiCard: 40, maxN: 3}

		k := genKnobs(rt, "k_", bs)
		k.sampling, k.gap, k.chunkPool = 32, 512, false
		if k.indexCache > 0 && k.indexCache < 4000 {
			k.indexCache = 0
		}
		k.dyn = &dynLimits{}
		ls, err := newBucketStore(bs.bkt, k)
		if err != nil {
			rt.Fatalf("harness: bucket store: %v", err)
		}
		defer ls.close()

		nontrivial := false
		classes := map[string]bool{}
		var rendered []string
		for qi := 0; qi < nQueries; qi++ {
			var q c10Query
			var cnt c09Counts
			for try := 0; try < 3; try++ {
				var moved bool
				if q.ms, moved = mg.drawOutside(rt); moved { // matcher evaluation itself is C10's subject
					rec.Class("moved-out-of-C10-dup-set-class")
				}
				q.mint, q.maxt = genRange(rt, dmin, dmax, marks)
				if cnt = c09Count(bs, q); cnt.lo > 0 {
					break
				}
			}
			req := func() *storepb.SeriesRequest {
				return &storepb.SeriesRequest{MinTime: q.mint, MaxTime: q.maxt, Matchers: mustMatchers(rt, q.ms)}
			}
			// unlimited answer (also warms the caches in a limit-free way, like earlier traffic would)
			k.dyn.series.Store(0)
			k.dyn.chunks.Store(0)
			unl, err := runSeries(ls.st, req())
			if err != nil || len(unl.warnings) > 0 {
				rt.Fatalf("C09 violated: unlimited request failed: %v %v\nquery %s knobs %s\nblocks %s", err, unl.warnings, q, k, renderSpecs(specs))
			}
			want := groupFrames(unl.frames)
			us, uc := countAnswer(unl.frames)
			if us > cnt.lo || uc > cnt.chunks {
				rt.Fatalf("harness/oracle: unlimited answer has %d series / %d chunks, brute force lo=%d chunks=%d\nquery %s blocks %s", us, uc, cnt.lo, cnt.chunks, q, renderSpecs(specs))
			}
			for li := 0; li < nLimits; li++ {
				sl := around(rt, "sl", cnt.lo, cnt.hi)
				cl := around(rt, "cl", cnt.chunks)
				if sl == 0 && cl == 0 {
					sl = around(rt, "sl2", cnt.lo, cnt.hi)
				}
				k.dyn.series.Store(sl)
				k.dyn.chunks.Store(cl)
				lazy0 := ls.lazyCount()
				srv, err := runSeries(ls.st, req())
				lazyUsed := ls.lazyCount() > lazy0
				mustFail := (sl > 0 && cnt.lo > sl) || (cl > 0 && cnt.chunks > cl)
				mustSucceed := (sl == 0 || cnt.hi <= sl) && (cl == 0 || cnt.chunks <= cl)
				ctxt := func() string {
					return fmt.Sprintf("\nquery %s seriesLimit=%d chunkLimit=%d (brute force: lo_s=%d hi_s=%d chunks=%d) lazyUsed=%v knobs %s\nblocks %s",
						q, sl, cl, cnt.lo, cnt.hi, cnt.chunks, lazyUsed, k, renderSpecs(specs))
				}
				if err != nil {
					if status.Code(err) != codes.ResourceExhausted {
						rt.Fatalf("C09 violated: failure does not carry ResourceExhausted: code=%v err=%v%s", status.Code(err), err, ctxt())
					}
					if mustSucceed {
						rt.Fatalf("C09 violated: request within both limits failed: %v%s", err, ctxt())
					}
					rec.Class("outcome-resource-exhausted")
					if mustFail {
						rec.Class("must-fail")
					} else {
						rec.Class("band-failed")
					}
				} else {
					if len(srv.warnings) > 0 {
						rt.Fatalf("C09 violated: success with warnings %v%s", srv.warnings, ctxt())
					}
					gs, gc := countAnswer(srv.frames)
					if mustFail {
						rt.Fatalf("C09 violated: request exceeding a limit succeeded with %d series / %d chunks%s", gs, gc, ctxt())
					}
					if sl > 0 && gs > sl {
						rt.Fatalf("C09 violated: %d series returned with series limit %d%s", gs, sl, ctxt())
					}
					if cl > 0 && gc > cl {
						rt.Fatalf("C09 violated: %d chunks returned with chunk limit %d%s", gc, cl, ctxt())
					}
					if d := diffAnswers(groupFrames(srv.frames), want); d != "" {
						rt.Fatalf("C09 violated: limited answer differs from the unlimited one: %s%s", d, ctxt())
					}
					rec.Class("outcome-ok")
					if mustSucceed {
						rec.Class("must-succeed")
					} else {
						rec.Class("band-succeeded")
					}
				}
				if within1(sl, cnt.lo, cnt.hi) || within1(cl, cnt.chunks) {
					nontrivial = true
					classes["limit-within-1"] = true
					if within1(sl, cnt.lo, cnt.hi) {
						rec.Class("series-limit-within-1")
					}
					if within1(cl, cnt.chunks) {
						rec.Class("chunk-limit-within-1")
					}
				}
				if lazyUsed {
					classes["lazy-postings-used"] = true
					rec.Class("req-lazy-used")
					if sl > 0 && cnt.lo > sl {
						rec.Class("lazy-and-series-limit-exceeded")
					}
				}
				rendered = append(rendered, fmt.Sprintf("%s sl=%d cl=%d", q, sl, cl))

				// The same request without chunks (SkipChunks, as the series/labels APIs of the querier
				// send it): only the series limit applies, the answer has the same label sets.
				if sl > 0 && rapid.IntRange(0, 1).Draw(rt, "alsoSkipChunks") == 0 {
					k.dyn.chunks.Store(0)
					r := req()
					r.SkipChunks = true
					lazy1 := ls.lazyCount()
					ssrv, serr := runSeries(ls.st, r)
					slazy := ls.lazyCount() > lazy1
					sctxt := func() string {
						return fmt.Sprintf("\nSkipChunks query %s seriesLimit=%d (brute force: lo_s=%d hi_s=%d) lazyUsed=%v knobs %s\nblocks %s",
							q, sl, cnt.lo, cnt.hi, slazy, k, renderSpecs(specs))
					}
					rec.Class("skip-chunks-request")
					if slazy {
						rec.Class("skip-chunks-lazy-used")
					}
					if serr != nil {
						if status.Code(serr) != codes.ResourceExhausted {
							rt.Fatalf("C09 violated: failure does not carry ResourceExhausted: code=%v err=%v%s", status.Code(serr), serr, sctxt())
						}
						if cnt.hi <= sl {
							rt.Fatalf("C09 violated: chunk-less request within the series limit failed: %v%s", serr, sctxt())
						}
					} else {
						gs, gc := countAnswer(ssrv.frames)
						if cnt.lo > sl {
							rt.Fatalf("C09 violated: chunk-less request exceeding the series limit succeeded with %d series%s", gs, sctxt())
						}
						if gs > sl {
							rt.Fatalf("C09 violated: %d series returned with series limit %d%s", gs, sl, sctxt())
						}
						if gc != 0 {
							rt.Fatalf("C09 violated: SkipChunks answer carries %d chunks%s", gc, sctxt())
						}
						got := groupFrames(ssrv.frames)
						for lk := range want {
							if _, ok := got[lk]; !ok {
								rt.Fatalf("C09 violated: chunk-less answer misses series %s of the unlimited answer%s", lk, sctxt())
							}
						}
						for lk := range got {
							if _, ok := want[lk]; !ok {
								rt.Fatalf("C09 violated: chunk-less answer has series %s the unlimited answer does not have%s", lk, sctxt())
							}
						}
						if slazy && cnt.lo == sl {
							rec.Class("skip-chunks-lazy-at-limit")
						}
					}
				}
			}
			if cnt.multiBlock {
				classes["series-in-several-blocks"] = true
			}
			if cnt.hi > cnt.lo {
				classes["series-without-chunks-in-range"] = true
			}
			if cnt.lo == 0 {
				rec.Class("query-empty")
			}
		}
		var cl []string
		for c := range classes {
			cl = append(cl, c)
		}
		sort.Strings(cl)
		rec.Case(fmt.Sprintf("%s | %s | %s", renderSpecs(specs), k, strings.Join(rendered, " ; ")), nontrivial, cl...)
	})
}
