package xbkt

import (
	"fmt"
	"testing"
	"time"

	"github.com/prometheus/prometheus/model/labels"
)

func TestVerifC10_bench(t *testing.T) {
	for _, cfg := range []struct {
		nser, nsmp int
		cr         int64
	}{{5, 10, 1000000}, {20, 50, 1000000}, {20, 50, 50}, {20, 50, 20}, {20, 200, 1000000}, {5, 10, 20}} {
		var sp blockSpec
		sp.ext = labels.FromStrings("e", "1")
		sp.chunkRange = cfg.cr
		for i := 0; i < cfg.nser; i++ {
			bsr := blockSeries{lset: labels.FromStrings("a", fmt.Sprint(i))}
			for j := 0; j < cfg.nsmp; j++ {
				bsr.samples = append(bsr.samples, smpl{int64(j * 7), float64(j)})
			}
			sp.series = append(sp.series, bsr)
		}
		t0 := time.Now()
		bs, err := buildBlockSet([]blockSpec{sp})
		if err != nil {
			t.Fatal(err)
		}
		d := time.Since(t0)
		nch := 0
		for _, m := range bs.blocks[0].model {
			nch += len(m.metas)
		}
		bs.close()
		fmt.Printf("BENCH nser=%d nsmp=%d cr=%d chunks=%d build=%v\n", cfg.nser, cfg.nsmp, cfg.cr, nch, d)
	}
}
