package xbkt

// Shared fixtures of group xbkt (properties C07–C10):
//   F-memdb   an in-memory store.TSDBReader with generated chunk cuts behind the real store.TSDBStore
//   F-blocks  generated series -> tsdb.CreateBlock -> metadata.InjectThanos -> block.Upload into an in-memory
//             bucket, a real store.BucketStore on top, and the same block directories opened with the
//             Prometheus TSDB reader (O-tsdb) / decoded into a brute-force model (O-bruteforce)
// plus the label / matcher / range generators and the response collector.

import (
	"context"
	"fmt"
	"math"
	"os"
	"path/filepath"
	"sort"
	"strings"
	"sync/atomic"
	"time"

	"github.com/go-kit/log"
	"github.com/oklog/ulid/v2"
	"github.com/prometheus/client_golang/prometheus"
	dto "github.com/prometheus/client_model/go"
	"github.com/prometheus/common/promslog"
	"github.com/prometheus/prometheus/model/histogram"
	"github.com/prometheus/prometheus/model/labels"
	"github.com/prometheus/prometheus/storage"
	"github.com/prometheus/prometheus/tsdb"
	"github.com/prometheus/prometheus/tsdb/chunkenc"
	"github.com/prometheus/prometheus/tsdb/chunks"
	"github.com/prometheus/prometheus/tsdb/index"
	"github.com/prometheus/prometheus/util/annotations"
	"github.com/thanos-io/objstore"
	pmodel "github.com/thanos-io/thanos/pkg/model"
	"pgregory.net/rapid"

	"github.com/thanos-io/thanos/pkg/block"
	"github.com/thanos-io/thanos/pkg/block/metadata"
	"github.com/thanos-io/thanos/pkg/component"
	"github.com/thanos-io/thanos/pkg/store"
	storecache "github.com/thanos-io/thanos/pkg/store/cache"
	"github.com/thanos-io/thanos/pkg/store/storepb"
)

// ---------------------------------------------------------------------------------------------
// samples and chunks

type smpl struct {
	t int64
	v float64
}

func (s smpl) T() int64                      { return s.t }
func (s smpl) F() float64                    { return s.v }
func (s smpl) H() *histogram.Histogram       { return nil }
func (s smpl) FH() *histogram.FloatHistogram { return nil }
func (s smpl) Type() chunkenc.ValueType      { return chunkenc.ValFloat }
func (s smpl) Copy() chunks.Sample           { return s }

func toSamples(x []smpl) []chunks.Sample {
	out := make([]chunks.Sample, len(x))
	for i := range x {
		out[i] = x[i]
	}
	return out
}

// chunkKey identifies a chunk by content.
type chunkKey struct {
	mint, maxt int64
	enc        int
	data       string
}

func (c chunkKey) String() string {
	return fmt.Sprintf("[%d,%d]#%d/%x", c.mint, c.maxt, len(c.data), kitHash(c.data)&0xffff)
}

func kitHash(s string) uint64 {
	var h uint64 = 14695981039346656037
	for i := 0; i < len(s); i++ {
		h ^= uint64(s[i])
		h *= 1099511628211
	}
	return h
}

// ---------------------------------------------------------------------------------------------
// logical series model

// mSeries is one stored series: stored labels and an ordered list of chunks (each a non-empty list of
// samples, strictly increasing timestamps over the whole series).
type mSeries struct {
	lset   labels.Labels
	chunks [][]smpl
}

func (s mSeries) samples() []smpl {
	var out []smpl
	for _, c := range s.chunks {
		out = append(out, c...)
	}
	return out
}

func (s mSeries) overlaps(mint, maxt int64) bool {
	for _, c := range s.chunks {
		if c[0].t <= maxt && c[len(c)-1].t >= mint {
			return true
		}
	}
	return false
}

func (s mSeries) chunksIn(mint, maxt int64) int {
	n := 0
	for _, c := range s.chunks {
		if c[0].t <= maxt && c[len(c)-1].t >= mint {
			n++
		}
	}
	return n
}

// matchAll is O-bruteforce: every matcher evaluated on lset.Get(name).
func matchAll(ms []*labels.Matcher, lset labels.Labels) bool {
	for _, m := range ms {
		if !m.Matches(lset.Get(m.Name)) {
			return false
		}
	}
	return true
}

// presented computes how a store with external labels ext must present a stored label set when the
// request asks to drop the labels in drop: external labels override, then the drop list is removed.
func presented(stored, ext labels.Labels, drop []string) labels.Labels {
	b := labels.NewBuilder(stored)
	ext.Range(func(l labels.Label) { b.Set(l.Name, l.Value) })
	for _, d := range drop {
		b.Del(d)
	}
	return b.Labels()
}

// overridden = stored labels overridden by the external ones (what selectors are evaluated against).
func overridden(stored, ext labels.Labels) labels.Labels { return presented(stored, ext, nil) }

func renderMatchers(ms []*labels.Matcher) string {
	ss := make([]string, len(ms))
	for i, m := range ms {
		ss[i] = m.String()
	}
	return "{" + strings.Join(ss, ",") + "}"
}

func mustMatchers(rt *rapid.T, ms []*labels.Matcher) []storepb.LabelMatcher {
	out, err := storepb.PromMatchersToMatchers(ms...)
	if err != nil {
		rt.Fatalf("harness: PromMatchersToMatchers: %v", err)
	}
	return out
}

// ---------------------------------------------------------------------------------------------
// generators

var (
	storedNames = []string{"a", "b", "c", "d", "__name__"}
	extNames    = []string{"e", "f", "r", "a", "b"} // "a","b" collide with stored names when colliding ext labels are allowed
	smallValues = []string{"0", "1", "2", "3", "4"}
)

// genLabelSets draws n unique stored label sets over the small alphabet; names listed in `forbid` are never
// used as stored names (to rule out collisions where a property does not want them).
func genLabelSets(rt *rapid.T, nmin, nmax int, forbid map[string]bool, extraStored []string, hiCard int) []labels.Labels {
	n := rapid.IntRange(nmin, nmax).Draw(rt, "nseries")
	var names []string
	for _, nm := range append(append([]string{}, storedNames...), extraStored...) {
		if !forbid[nm] {
			names = append(names, nm)
		}
	}
	seen := map[string]bool{}
	var out []labels.Labels
	for tries := 0; len(out) < n && tries < 4*n+8; tries++ {
		b := labels.NewScratchBuilder(4)
		k := 0
		for _, nm := range names {
			// shared labels (a, __name__) are frequent, rare ones (d) are not.
			p := 2
			switch nm {
			case "a", "__name__":
				p = 4
			case "d":
				p = 1
			}
			if rapid.IntRange(0, 4).Draw(rt, "has_"+nm) < p {
				b.Add(nm, rapid.SampledFrom(smallValues).Draw(rt, "v_"+nm))
				k++
			}
		}
		if hiCard > 0 && rapid.IntRange(0, 3).Draw(rt, "has_h") > 0 {
			b.Add("h", fmt.Sprintf("v%02d", rapid.IntRange(0, hiCard-1).Draw(rt, "v_h")))
			k++
		}
		if k == 0 {
			b.Add(names[0], "0")
		}
		b.Sort()
		l := b.Labels()
		if seen[l.String()] {
			continue
		}
		seen[l.String()] = true
		out = append(out, l)
	}
	sort.Slice(out, func(i, j int) bool { return labels.Compare(out[i], out[j]) < 0 })
	return out
}

// genExt draws an external label set (possibly empty). If collide is false the names a, b are not used.
func genExt(rt *rapid.T, collide bool, minLabels int) labels.Labels {
	b := labels.NewScratchBuilder(3)
	k := 0
	for _, nm := range extNames {
		if !collide && (nm == "a" || nm == "b") {
			continue
		}
		p := 2
		if nm == "a" || nm == "b" {
			p = 1
		}
		if rapid.IntRange(0, 3).Draw(rt, "ext_"+nm) < p {
			b.Add(nm, rapid.SampledFrom(smallValues).Draw(rt, "extv_"+nm))
			k++
		}
	}
	if k < minLabels {
		b.Add("e", rapid.SampledFrom(smallValues).Draw(rt, "extv_e2"))
	}
	b.Sort()
	return b.Labels()
}

// genDrop draws a replica-label (drop) list: external, stored, both or absent names.
func genDrop(rt *rapid.T) []string {
	switch rapid.IntRange(0, 5).Draw(rt, "dropKind") {
	case 0, 1:
		return nil
	case 2:
		return []string{"r"}
	case 3:
		return []string{rapid.SampledFrom([]string{"e", "f", "r", "a", "b", "c", "zz"}).Draw(rt, "drop1")}
	default:
		n := rapid.IntRange(1, 3).Draw(rt, "ndrop")
		out := rapid.SliceOfNDistinct(rapid.SampledFrom([]string{"e", "f", "r", "a", "b", "c", "d", "zz"}), n, n, rapid.ID[string]).Draw(rt, "drop")
		return out
	}
}

// valuePool lists candidate values of a name: the small alphabet, absent and empty.
func valuePool(name string, hiCard int) []string {
	if name == "h" && hiCard > 0 {
		out := []string{"", "zz"}
		for i := 0; i < hiCard; i++ {
			out = append(out, fmt.Sprintf("v%02d", i))
		}
		return out
	}
	return []string{"0", "1", "2", "3", "4", "9", ""}
}

func genRegex(rt *rapid.T, name string, hiCard int) string {
	pool := valuePool(name, hiCard)
	switch rapid.IntRange(0, 9).Draw(rt, "reKind") {
	case 0:
		return ".+"
	case 1:
		return ".*"
	case 2:
		return ""
	case 3, 4, 5: // set matcher
		n := rapid.IntRange(2, 4).Draw(rt, "nset")
		vs := make([]string, n)
		for i := range vs {
			vs[i] = rapid.SampledFrom(pool).Draw(rt, "setv")
		}
		return strings.Join(vs, "|")
	case 6:
		if name == "h" {
			return "v0.*"
		}
		return "[0-2]"
	case 7:
		if name == "h" {
			return "v.[13579]"
		}
		return "[^0]"
	case 8:
		v := rapid.SampledFrom(pool).Draw(rt, "lit")
		return v
	default:
		if name == "h" {
			return "v1.|zz|"
		}
		return "1|3|"
	}
}

// matcherGen describes the selector space of one scenario.
type matcherGen struct {
	nonExt  []string            // names that are not an external label of any store involved (frequent first)
	extVals map[string][]string // external label name -> values used by the stores involved
	stored  map[string][]string // stored label name -> values present (biases towards selectors that match something)
	hiCard  int
	maxN    int
}

func (g matcherGen) matcher(rt *rapid.T, name string) *labels.Matcher {
	pool := valuePool(name, g.hiCard)
	if vs := g.extVals[name]; len(vs) > 0 && rapid.IntRange(0, 9).Draw(rt, "extHit") < 7 {
		pool = vs
	} else if vs := g.stored[name]; len(vs) > 0 && rapid.IntRange(0, 9).Draw(rt, "storedHit") < 7 {
		pool = vs
	}
	val := func() string { return rapid.SampledFrom(pool).Draw(rt, "mval") }
	switch rapid.IntRange(0, 19).Draw(rt, "mkind") {
	case 0, 1, 2, 3, 4:
		return labels.MustNewMatcher(labels.MatchEqual, name, val())
	case 5:
		return labels.MustNewMatcher(labels.MatchEqual, name, "")
	case 6, 7, 8:
		return labels.MustNewMatcher(labels.MatchNotEqual, name, val())
	case 9:
		return labels.MustNewMatcher(labels.MatchNotEqual, name, "")
	case 10, 11, 12:
		n := rapid.IntRange(2, 4).Draw(rt, "nset")
		vs := make([]string, n)
		for i := range vs {
			vs[i] = val()
		}
		return labels.MustNewMatcher(labels.MatchRegexp, name, strings.Join(vs, "|"))
	case 13:
		return labels.MustNewMatcher(labels.MatchRegexp, name, ".+")
	case 14, 15:
		return labels.MustNewMatcher(labels.MatchRegexp, name, genRegex(rt, name, g.hiCard))
	case 16, 17:
		n := rapid.IntRange(1, 3).Draw(rt, "nnset")
		vs := make([]string, n)
		for i := range vs {
			vs[i] = val()
		}
		return labels.MustNewMatcher(labels.MatchNotRegexp, name, strings.Join(vs, "|"))
	default:
		return labels.MustNewMatcher(labels.MatchNotRegexp, name, genRegex(rt, name, g.hiCard))
	}
}

// draw returns 1..maxN matchers; at least one is on a name of nonExt (a label name that is not an external
// label of any store involved — all Thanos stores require that), the others on any stored or external name.
func (g matcherGen) draw(rt *rapid.T) []*labels.Matcher {
	n := 1
	if g.maxN > 1 {
		n = rapid.SampledFrom([]int{1, 1, 2, 2, 2, 2, 3, 3}).Draw(rt, "nmatchers")
		if n > g.maxN {
			n = g.maxN
		}
	}
	var extN []string
	for e := range g.extVals {
		extN = append(extN, e)
	}
	sort.Strings(extN)
	pickNonExt := func(label string) string {
		// earlier names are more frequent
		i := rapid.IntRange(0, len(g.nonExt)-1).Draw(rt, label)
		j := rapid.IntRange(0, len(g.nonExt)-1).Draw(rt, label+"b")
		if j < i {
			i = j
		}
		return g.nonExt[i]
	}
	ms := []*labels.Matcher{g.matcher(rt, pickNonExt("mname0"))}
	for i := 1; i < n; i++ {
		if len(extN) > 0 && rapid.IntRange(0, 3).Draw(rt, "onExt") == 0 {
			ms = append(ms, g.matcher(rt, rapid.SampledFrom(extN).Draw(rt, "mnameE")))
		} else {
			ms = append(ms, g.matcher(rt, pickNonExt("mname")))
		}
	}
	if len(ms) > 1 && rapid.Bool().Draw(rt, "rot") {
		ms = append(ms[1:], ms[0])
	}
	return ms
}

// extValsOf collects name -> values over external label sets; names listed in always are present even if
// no store uses them (matchers on them then behave like matchers on absent stored labels).
func extValsOf(exts []labels.Labels, always ...string) map[string][]string {
	m := map[string]map[string]bool{}
	for _, n := range always {
		m[n] = map[string]bool{}
	}
	for _, e := range exts {
		e.Range(func(l labels.Label) {
			if m[l.Name] == nil {
				m[l.Name] = map[string]bool{}
			}
			m[l.Name][l.Value] = true
		})
	}
	out := map[string][]string{}
	for n, vs := range m {
		out[n] = sortedKeys(vs)
	}
	return out
}

// genTimes draws n strictly increasing timestamps starting at or after lo.
func genTimes(rt *rapid.T, lo int64, n int, stepMax int64) []int64 {
	out := make([]int64, n)
	t := lo + rapid.Int64Range(0, stepMax).Draw(rt, "t0")
	for i := range out {
		out[i] = t
		t += rapid.Int64Range(1, stepMax).Draw(rt, "dt")
	}
	return out
}

// genRange draws a query range relative to the data range [dmin,dmax]: inside, overlapping, touching a
// boundary exactly, outside or everything.
func genRange(rt *rapid.T, dmin, dmax int64, marks []int64) (int64, int64) {
	pick := func(label string) int64 {
		if len(marks) > 0 && rapid.IntRange(0, 2).Draw(rt, label+"k") > 0 {
			return rapid.SampledFrom(marks).Draw(rt, label+"m") + int64(rapid.IntRange(-1, 1).Draw(rt, label+"o"))
		}
		return rapid.Int64Range(dmin-10, dmax+10).Draw(rt, label)
	}
	switch rapid.IntRange(0, 13).Draw(rt, "rangeKind") {
	case 0, 1, 2, 3:
		return math.MinInt64 / 2, math.MaxInt64 / 2
	case 4:
		return dmax + 1 + rapid.Int64Range(0, 5).Draw(rt, "after"), dmax + 100
	case 5:
		return dmin - 100, dmin - 1 - rapid.Int64Range(0, 5).Draw(rt, "before")
	default:
		a, b := pick("r1"), pick("r2")
		if a > b {
			a, b = b, a
		}
		return a, b
	}
}

// ---------------------------------------------------------------------------------------------
// F-memdb

type memSeries struct {
	lset  labels.Labels
	metas []chunks.Meta
}

// memDB implements store.TSDBReader over explicit chunk lists. Label queries are *tight*: they only
// consider series with a chunk overlapping the querier's range (a real TSDB answers a superset).
type memDB struct {
	series []memSeries
	mint   int64
}

func newMemDB(ss []mSeries) (*memDB, error) {
	db := &memDB{mint: math.MaxInt64}
	for _, s := range ss {
		ms := memSeries{lset: s.lset}
		for _, c := range s.chunks {
			m, err := chunks.ChunkFromSamples(toSamples(c))
			if err != nil {
				return nil, err
			}
			ms.metas = append(ms.metas, m)
			if m.MinTime < db.mint {
				db.mint = m.MinTime
			}
		}
		db.series = append(db.series, ms)
	}
	sort.Slice(db.series, func(i, j int) bool { return labels.Compare(db.series[i].lset, db.series[j].lset) < 0 })
	return db, nil
}

func (db *memDB) StartTime() (int64, error) { return db.mint, nil }
func (db *memDB) ChunkQuerier(mint, maxt int64) (storage.ChunkQuerier, error) {
	return &memQuerier{db: db, mint: mint, maxt: maxt}, nil
}

type memQuerier struct {
	db         *memDB
	mint, maxt int64
}

func (q *memQuerier) sel(ms []*labels.Matcher) []memSeries {
	var out []memSeries
	for _, s := range q.db.series {
		if !matchAll(ms, s.lset) {
			continue
		}
		var in []chunks.Meta
		for _, m := range s.metas {
			if m.MinTime <= q.maxt && m.MaxTime >= q.mint {
				in = append(in, m)
			}
		}
		if len(in) == 0 {
			continue
		}
		out = append(out, memSeries{lset: s.lset, metas: in})
	}
	return out
}

func (q *memQuerier) Select(_ context.Context, _ bool, _ *storage.SelectHints, ms ...*labels.Matcher) storage.ChunkSeriesSet {
	return &memSet{series: q.sel(ms), i: -1}
}

func (q *memQuerier) LabelNames(_ context.Context, _ *storage.LabelHints, ms ...*labels.Matcher) ([]string, annotations.Annotations, error) {
	set := map[string]struct{}{}
	for _, s := range q.sel(ms) {
		s.lset.Range(func(l labels.Label) { set[l.Name] = struct{}{} })
	}
	out := make([]string, 0, len(set))
	for n := range set {
		out = append(out, n)
	}
	sort.Strings(out)
	return out, nil, nil
}

func (q *memQuerier) LabelValues(_ context.Context, name string, _ *storage.LabelHints, ms ...*labels.Matcher) ([]string, annotations.Annotations, error) {
	set := map[string]struct{}{}
	for _, s := range q.sel(ms) {
		if v := s.lset.Get(name); v != "" {
			set[v] = struct{}{}
		}
	}
	out := make([]string, 0, len(set))
	for n := range set {
		out = append(out, n)
	}
	sort.Strings(out)
	return out, nil, nil
}

func (q *memQuerier) Close() error { return nil }

type memSet struct {
	series []memSeries
	i      int
}

func (s *memSet) Next() bool { s.i++; return s.i < len(s.series) }
func (s *memSet) At() storage.ChunkSeries {
	cur := s.series[s.i]
	return &storage.ChunkSeriesEntry{Lset: cur.lset, ChunkIteratorFn: func(chunks.Iterator) chunks.Iterator {
		return storage.NewListChunkSeriesIterator(cur.metas...)
	}}
}
func (s *memSet) Err() error                        { return nil }
func (s *memSet) Warnings() annotations.Annotations { return nil }

func newTSDBStore(db *memDB, ext labels.Labels) *store.TSDBStore {
	return store.NewTSDBStore(log.NewNopLogger(), db, component.Receive, ext)
}

// ---------------------------------------------------------------------------------------------
// response collector

type gotSeries struct {
	lset   labels.Labels
	chunks []chunkKey
}

// collectSrv is a storepb.Store_SeriesServer that deep-copies everything at Send time (as gRPC
// marshalling would), flattening batches.
type collectSrv struct {
	storepb.Store_SeriesServer
	ctx      context.Context
	frames   []gotSeries
	warnings []string
	sends    int
}

func newCollectSrv() *collectSrv { return &collectSrv{ctx: context.Background()} }

func (s *collectSrv) Context() context.Context { return s.ctx }

func (s *collectSrv) add(ser *storepb.Series) {
	b := labels.NewScratchBuilder(len(ser.Labels))
	for _, l := range ser.Labels {
		b.Add(strings.Clone(l.Name), strings.Clone(l.Value))
	}
	g := gotSeries{lset: b.Labels()}
	for _, c := range ser.Chunks {
		k := chunkKey{mint: c.MinTime, maxt: c.MaxTime, enc: -1}
		if c.Raw != nil {
			k.enc = int(c.Raw.Type)
			k.data = string(c.Raw.Data) // copies
		}
		g.chunks = append(g.chunks, k)
	}
	s.frames = append(s.frames, g)
}

func (s *collectSrv) Send(r *storepb.SeriesResponse) error {
	s.sends++
	if w := r.GetWarning(); w != "" {
		s.warnings = append(s.warnings, w)
	}
	if ser := r.GetSeries(); ser != nil {
		s.add(ser)
	}
	if b := r.GetBatch(); b != nil {
		for _, ser := range b.Series {
			if ser != nil {
				s.add(ser)
			}
		}
	}
	return nil
}

// labelSetsOf returns the set of label-set strings of the frames.
func labelSetsOf(frames []gotSeries) map[string]bool {
	out := map[string]bool{}
	for _, f := range frames {
		out[f.lset.String()] = true
	}
	return out
}

func sortedKeys(m map[string]bool) []string {
	out := make([]string, 0, len(m))
	for k := range m {
		out = append(out, k)
	}
	sort.Strings(out)
	return out
}

// ---------------------------------------------------------------------------------------------
// F-blocks

type blockSpec struct {
	ext        labels.Labels
	series     []blockSeries // label-sorted, unique
	chunkRange int64
}

type blockSeries struct {
	lset    labels.Labels
	samples []smpl
}

// modelSeries is one series as it is physically stored in a block (decoded from the block's index
// with the Prometheus index reader): labels and chunk metas.
type modelSeries struct {
	lset  labels.Labels
	metas []chunks.Meta
}

func (s modelSeries) chunksIn(mint, maxt int64) int {
	n := 0
	for _, m := range s.metas {
		if m.MinTime <= maxt && m.MaxTime >= mint {
			n++
		}
	}
	return n
}

type builtBlock struct {
	id         ulid.ULID
	dir        string
	ext        labels.Labels
	mint, maxt int64 // block meta: [mint, maxt)
	blk        *tsdb.Block
	model      []modelSeries
	// statsSeriesMax is HealthStats.SeriesMaxSize of the block's index (what compactor-written metas carry in
	// Thanos.IndexStats and what `thanos store` feeds into the per-block series size estimate).
	statsSeriesMax int64
}

type blockSet struct {
	root   string
	bkt    objstore.Bucket
	blocks []*builtBlock
}

func (bs *blockSet) close() {
	for _, b := range bs.blocks {
		if b.blk != nil {
			_ = b.blk.Close()
		}
	}
	_ = os.RemoveAll(bs.root)
}

func (bs *blockSet) dataRange() (int64, int64, []int64) {
	lo, hi := int64(math.MaxInt64), int64(math.MinInt64)
	var marks []int64
	for _, b := range bs.blocks {
		if b.mint < lo {
			lo = b.mint
		}
		if b.maxt > hi {
			hi = b.maxt
		}
		marks = append(marks, b.mint, b.maxt, b.maxt-1)
		for _, s := range b.model {
			for _, m := range s.metas {
				marks = append(marks, m.MinTime, m.MaxTime)
			}
		}
	}
	return lo, hi, marks
}

// buildBlockSet writes, injects, uploads and re-opens the blocks. Errors are harness errors.
func buildBlockSet(specs []blockSpec) (*blockSet, error) {
	root, err := os.MkdirTemp("", "xbkt-blocks")
	if err != nil {
		return nil, err
	}
	bs := &blockSet{root: root, bkt: objstore.NewInMemBucket()}
	ok := false
	defer func() {
		if !ok {
			bs.close()
		}
	}()
	ctx := context.Background()
	for i, sp := range specs {
		bdir := filepath.Join(root, fmt.Sprintf("b%d", i))
		if err := os.MkdirAll(bdir, 0o755); err != nil {
			return nil, err
		}
		dir, err := createBlock(sp.series, bdir, sp.chunkRange)
		if err != nil {
			return nil, fmt.Errorf("createBlock: %w", err)
		}
		if _, err := metadata.InjectThanos(log.NewNopLogger(), dir, metadata.Thanos{
			Labels:     sp.ext.Map(),
			Downsample: metadata.ThanosDownsample{Resolution: 0},
			Source:     metadata.TestSource,
		}, nil); err != nil {
			return nil, fmt.Errorf("InjectThanos: %w", err)
		}
		if err := block.Upload(ctx, log.NewNopLogger(), bs.bkt, dir, metadata.NoneFunc); err != nil {
			return nil, fmt.Errorf("Upload: %w", err)
		}
		blk, err := tsdb.OpenBlock(nil, dir, nil, nil)
		if err != nil {
			return nil, fmt.Errorf("OpenBlock: %w", err)
		}
		bb := &builtBlock{id: blk.Meta().ULID, dir: dir, ext: sp.ext, mint: blk.Meta().MinTime, maxt: blk.Meta().MaxTime, blk: blk}
		bs.blocks = append(bs.blocks, bb)
		if bb.model, err = readModel(blk); err != nil {
			return nil, err
		}
		hs, err := block.GatherIndexHealthStats(ctx, log.NewNopLogger(), filepath.Join(dir, block.IndexFilename), bb.mint, bb.maxt)
		if err != nil {
			return nil, fmt.Errorf("GatherIndexHealthStats: %w", err)
		}
		bb.statsSeriesMax = hs.SeriesMaxSize
	}
	ok = true
	return bs, nil
}

// createBlock is tsdb.CreateBlock with the samples appended in global time order: the head only accepts
// samples newer than maxt-chunkRange/2, so appending series by series (as CreateBlock does) would restrict
// blocks to one or two chunks per series. With time-ordered appends a small chunkRange cuts many chunks.
func createBlock(series []blockSeries, dir string, chunkRange int64) (string, error) {
	w, err := tsdb.NewBlockWriter(promslog.NewNopLogger(), dir, chunkRange)
	if err != nil {
		return "", err
	}
	defer func() { _ = w.Close() }()
	type ev struct {
		t   int64
		v   float64
		idx int
	}
	var evs []ev
	for i, s := range series {
		for _, x := range s.samples {
			evs = append(evs, ev{x.t, x.v, i})
		}
	}
	sort.SliceStable(evs, func(i, j int) bool { return evs[i].t < evs[j].t })
	ctx := context.Background()
	app := w.Appender(ctx)
	refs := make([]storage.SeriesRef, len(series))
	for n, e := range evs {
		ref, err := app.Append(refs[e.idx], series[e.idx].lset, e.t, e.v)
		if err != nil {
			return "", err
		}
		refs[e.idx] = ref
		if n%5000 == 4999 {
			if err := app.Commit(); err != nil {
				return "", err
			}
			app = w.Appender(ctx)
		}
	}
	if err := app.Commit(); err != nil {
		return "", err
	}
	id, err := w.Flush(ctx)
	if err != nil {
		return "", err
	}
	return filepath.Join(dir, id.String()), nil
}

func readModel(blk *tsdb.Block) ([]modelSeries, error) {
	ir, err := blk.Index()
	if err != nil {
		return nil, err
	}
	defer ir.Close()
	ctx := context.Background()
	k, v := index.AllPostingsKey()
	p, err := ir.Postings(ctx, k, v)
	if err != nil {
		return nil, err
	}
	var out []modelSeries
	var b labels.ScratchBuilder
	for p.Next() {
		var metas []chunks.Meta
		if err := ir.Series(p.At(), &b, &metas); err != nil {
			return nil, err
		}
		out = append(out, modelSeries{lset: b.Labels().Copy(), metas: append([]chunks.Meta(nil), metas...)})
	}
	return out, p.Err()
}

// resolveExt applies the rule all Thanos stores share: matchers on external label names are checked
// against the external value (mismatch -> the block/store contributes nothing) and removed.
func resolveExt(ms []*labels.Matcher, ext labels.Labels) (rest []*labels.Matcher, ok bool) {
	for _, m := range ms {
		v := ext.Get(m.Name)
		if v == "" {
			rest = append(rest, m)
			continue
		}
		if !m.Matches(v) {
			return nil, false
		}
	}
	return rest, true
}

// ---------------------------------------------------------------------------------------------
// BucketStore construction

// dynLimits are limits that can be changed between requests: the limiter factories are invoked once per
// request (that is what they exist for: "dynamic limits"), and hand out the real store.Limiter.
type dynLimits struct {
	series, chunks atomic.Uint64
}

type storeKnobs struct {
	seriesLimit, chunksLimit uint64
	dyn                      *dynLimits // if set, overrides seriesLimit/chunksLimit per request
	indexCache               int        // 0 off, >0 max size in bytes
	lazy                     bool
	estSeriesSize            uint64              // 0: option not set (64 KiB default); >0 fixed estimate
	estFromStats             map[ulid.ULID]int64 // non-nil: `thanos store` formula over IndexStats.SeriesMaxSize
	matchRatio               float64
	maxKeyRatio              float64
	batchSize                int
	sampling                 int
	gap                      uint64
	chunkPool                bool
}

func (k storeKnobs) String() string {
	if k.estFromStats != nil {
		k.estSeriesSize = 7777777 // rendered marker: per-block estimate from index stats
	}
	return fmt.Sprintf("sl=%d cl=%d cache=%d lazy=%v est=%d ratio=%.2f/%.1f batch=%d sampling=%d gap=%d pool=%v",
		k.seriesLimit, k.chunksLimit, k.indexCache, k.lazy, k.estSeriesSize, k.matchRatio, k.maxKeyRatio, k.batchSize, k.sampling, k.gap, k.chunkPool)
}

func defaultKnobs() storeKnobs {
	return storeKnobs{batchSize: store.SeriesBatchSize, sampling: store.DefaultPostingOffsetInMemorySampling, gap: store.PartitionerMaxGapSize, matchRatio: 0.5}
}

// countingCache wraps an IndexCache and counts hits.
type countingCache struct {
	storecache.IndexCache
	postingHits, expandedHits, seriesHits atomic.Int64
}

func (c *countingCache) FetchMultiPostings(ctx context.Context, id ulid.ULID, keys []labels.Label, tenant string) (map[labels.Label][]byte, []labels.Label) {
	h, m := c.IndexCache.FetchMultiPostings(ctx, id, keys, tenant)
	c.postingHits.Add(int64(len(h)))
	return h, m
}

func (c *countingCache) FetchExpandedPostings(ctx context.Context, id ulid.ULID, ms []*labels.Matcher, tenant string) ([]byte, bool) {
	b, ok := c.IndexCache.FetchExpandedPostings(ctx, id, ms, tenant)
	if ok {
		c.expandedHits.Add(1)
	}
	return b, ok
}

func (c *countingCache) FetchMultiSeries(ctx context.Context, id ulid.ULID, ids []storage.SeriesRef, tenant string) (map[storage.SeriesRef][]byte, []storage.SeriesRef) {
	h, m := c.IndexCache.FetchMultiSeries(ctx, id, ids, tenant)
	c.seriesHits.Add(int64(len(h)))
	return h, m
}

func (c *countingCache) hits() int64 {
	return c.postingHits.Load() + c.expandedHits.Load() + c.seriesHits.Load()
}

type liveStore struct {
	st    *store.BucketStore
	reg   *prometheus.Registry
	cache *countingCache
	dir   string
}

func (l *liveStore) close() {
	_ = l.st.Close()
	_ = os.RemoveAll(l.dir)
}

// lazyCount reads thanos_bucket_store_lazy_expanded_postings_total.
func (l *liveStore) lazyCount() float64 {
	mfs, err := l.reg.Gather()
	if err != nil {
		return 0
	}
	for _, mf := range mfs {
		if mf.GetName() == "thanos_bucket_store_lazy_expanded_postings_total" {
			var s float64
			for _, m := range mf.GetMetric() {
				s += counterValue(m)
			}
			return s
		}
	}
	return 0
}

func counterValue(m *dto.Metric) float64 {
	if m.GetCounter() != nil {
		return m.GetCounter().GetValue()
	}
	return 0
}

func newBucketStore(bkt objstore.Bucket, k storeKnobs) (*liveStore, error) {
	dir, err := os.MkdirTemp("", "xbkt-store")
	if err != nil {
		return nil, err
	}
	logger := log.NewNopLogger()
	ibkt := objstore.WithNoopInstr(bkt)
	fetcher, err := block.NewMetaFetcher(logger, 2, ibkt, block.NewConcurrentLister(logger, ibkt), filepath.Join(dir, "meta"), nil, nil)
	if err != nil {
		_ = os.RemoveAll(dir)
		return nil, err
	}
	l := &liveStore{reg: prometheus.NewRegistry(), dir: dir}
	opts := []store.BucketStoreOption{
		store.WithRegistry(l.reg),
		store.WithSeriesBatchSize(k.batchSize),
		store.WithLazyExpandedPostings(k.lazy),
		store.WithSeriesMatchRatio(k.matchRatio),
		store.WithPostingGroupMaxKeySeriesRatio(k.maxKeyRatio),
	}
	if k.estFromStats != nil {
		m := k.estFromStats
		opts = append(opts, store.WithBlockEstimatedMaxSeriesFunc(func(meta metadata.Meta) uint64 {
			// cmd/thanos/store.go: IndexStats.SeriesMaxSize if set and below the configured estimate.
			if v := m[meta.ULID]; v > 0 && v < store.EstimatedMaxSeriesSize {
				return uint64(v)
			}
			return store.EstimatedMaxSeriesSize
		}))
	} else if k.estSeriesSize > 0 {
		est := k.estSeriesSize
		opts = append(opts, store.WithBlockEstimatedMaxSeriesFunc(func(metadata.Meta) uint64 { return est }))
	}
	if k.indexCache > 0 {
		c, err := storecache.NewInMemoryIndexCacheWithConfig(logger, nil, nil, storecache.InMemoryIndexCacheConfig{MaxSize: pmodel.Bytes(k.indexCache), MaxItemSize: pmodel.Bytes(k.indexCache)})
		if err != nil {
			_ = os.RemoveAll(dir)
			return nil, err
		}
		l.cache = &countingCache{IndexCache: c}
		opts = append(opts, store.WithIndexCache(l.cache))
	}
	if k.chunkPool {
		p, err := store.NewDefaultChunkBytesPool(1 << 20)
		if err != nil {
			_ = os.RemoveAll(dir)
			return nil, err
		}
		opts = append(opts, store.WithChunkPool(p))
	}
	clf, slf := store.NewChunksLimiterFactory(k.chunksLimit), store.NewSeriesLimiterFactory(k.seriesLimit)
	if k.dyn != nil {
		d := k.dyn
		clf = func(failed prometheus.Counter) store.ChunksLimiter { return store.NewLimiter(d.chunks.Load(), failed) }
		slf = func(failed prometheus.Counter) store.SeriesLimiter { return store.NewLimiter(d.series.Load(), failed) }
	}
	st, err := store.NewBucketStore(ibkt, fetcher, filepath.Join(dir, "data"),
		clf, slf, store.NewBytesLimiterFactory(0),
		store.NewGapBasedPartitioner(k.gap), 2, k.sampling, false, false, time.Minute, opts...)
	if err != nil {
		_ = os.RemoveAll(dir)
		return nil, err
	}
	l.st = st
	if err := st.SyncBlocks(context.Background()); err != nil {
		l.close()
		return nil, err
	}
	return l, nil
}

// ---------------------------------------------------------------------------------------------
// scenarios shared by C07 / C08

// lq is one label-API / Series query: selectors, range and the replica labels to drop.
type lq struct {
	ms         []*labels.Matcher
	mint, maxt int64
	drop       []string
}

func (q lq) String() string {
	return fmt.Sprintf("%s@[%d,%d] without=%v", renderMatchers(q.ms), q.mint, q.maxt, q.drop)
}

// genMemWorld draws the stored series of one in-memory TSDB: shared / rare labels, optionally a stored
// replica label "r" and stored labels named like external ones (a, b, e), 1..4 generated chunk cuts.
func genMemWorld(rt *rapid.T, label string, nmax int) []mSeries {
	var extra []string
	if rapid.Bool().Draw(rt, label+"storedR") {
		extra = append(extra, "r")
	}
	if rapid.IntRange(0, 3).Draw(rt, label+"storedE") == 0 {
		extra = append(extra, "e")
	}
	lsets := genLabelSets(rt, 1, nmax, nil, extra, 0)
	out := make([]mSeries, len(lsets))
	for i, l := range lsets {
		n := rapid.IntRange(1, 24).Draw(rt, "nsamples")
		ts := genTimes(rt, rapid.Int64Range(0, 300).Draw(rt, "start"), n, rapid.SampledFrom([]int64{1, 5, 30}).Draw(rt, "step"))
		s := mSeries{lset: l}
		var cur []smpl
		for j, t := range ts {
			cur = append(cur, smpl{t, float64(i*100 + j)})
			if j == len(ts)-1 || rapid.IntRange(0, 5).Draw(rt, "cut") == 0 {
				s.chunks = append(s.chunks, cur)
				cur = nil
			}
		}
		out[i] = s
	}
	return out
}

func memRange(ws ...[]mSeries) (int64, int64, []int64) {
	lo, hi := int64(math.MaxInt64), int64(math.MinInt64)
	var marks []int64
	for _, w := range ws {
		for _, s := range w {
			for _, c := range s.chunks {
				a, b := c[0].t, c[len(c)-1].t
				if a < lo {
					lo = a
				}
				if b > hi {
					hi = b
				}
				marks = append(marks, a, b)
			}
		}
	}
	if lo > hi {
		lo, hi = 0, 0
	}
	return lo, hi, marks
}

// nonExtNames returns the candidate selector names that are not external labels of any involved store.
func nonExtNames(exts []labels.Labels) []string {
	var out []string
	for _, n := range []string{"a", "__name__", "b", "c", "d", "h", "r", "e", "q"} {
		isExt := false
		for _, e := range exts {
			if e.Has(n) {
				isExt = true
			}
		}
		if !isExt {
			out = append(out, n)
		}
	}
	return out
}

func hasString(xs []string, x string) bool {
	for _, y := range xs {
		if y == x {
			return true
		}
	}
	return false
}

// ---------------------------------------------------------------------------------------------
// finding C10/dup-set-matcher-minus-empty-matcher

// sigC10DupSet: BucketStore's postingGroup.mergeKeys subtracts remove keys from add keys with a two-pointer walk
// that assumes unique keys, but the add keys of a set regex ("1|1|2") are sorted and not de-duplicated; combined
// with a matcher on the same label name that matches the empty string (a!="1", a="", a!~"1") the duplicate
// survives the subtraction and series that the second matcher excludes are returned.
const sigC10DupSet = "C10/dup-set-matcher-minus-empty-matcher"

// dupSetTrigger reports whether ms belongs to that root-cause class: a positive set regex with a duplicated
// alternative v and another matcher on the same name that matches "" and rejects v.
func dupSetTrigger(ms []*labels.Matcher) bool {
	for i, m := range ms {
		if m.Type != labels.MatchRegexp || m.Matches("") {
			continue
		}
		vals := m.SetMatches()
		cnt := map[string]int{}
		for _, v := range vals {
			cnt[v]++
		}
		for v, n := range cnt {
			if n < 2 {
				continue
			}
			for j, o := range ms {
				if j != i && o.Name == m.Name && o.Matches("") && !o.Matches(v) {
					return true
				}
			}
		}
	}
	return false
}

// dedupSets rewrites positive set regexes without duplicated alternatives (same meaning, outside the class).
func dedupSets(ms []*labels.Matcher) []*labels.Matcher {
	out := make([]*labels.Matcher, len(ms))
	for i, m := range ms {
		out[i] = m
		if m.Type != labels.MatchRegexp {
			continue
		}
		vals := m.SetMatches()
		if len(vals) < 2 {
			continue
		}
		seen := map[string]bool{}
		var uniq []string
		for _, v := range vals {
			if !seen[v] {
				seen[v] = true
				uniq = append(uniq, v)
			}
		}
		if len(uniq) != len(vals) {
			out[i] = labels.MustNewMatcher(labels.MatchRegexp, m.Name, strings.Join(uniq, "|"))
		}
	}
	return out
}

// drawOutside draws selectors and moves them out of the dup-set class if they fall into it (second result).
func (g matcherGen) drawOutside(rt *rapid.T) ([]*labels.Matcher, bool) {
	ms := g.draw(rt)
	if dupSetTrigger(ms) {
		return dedupSets(ms), true
	}
	return ms, false
}

// storedValsOf collects name -> values over stored label sets.
func storedValsOf(lsets ...[]labels.Labels) map[string][]string {
	m := map[string]map[string]bool{}
	for _, ls := range lsets {
		for _, l := range ls {
			l.Range(func(x labels.Label) {
				if m[x.Name] == nil {
					m[x.Name] = map[string]bool{}
				}
				m[x.Name][x.Value] = true
			})
		}
	}
	out := map[string][]string{}
	for n, vs := range m {
		out[n] = sortedKeys(vs)
	}
	return out
}

func specLsets(specs []blockSpec) []labels.Labels {
	var out []labels.Labels
	for _, sp := range specs {
		for _, s := range sp.series {
			out = append(out, s.lset)
		}
	}
	return out
}

func worldLsets(ws ...[]mSeries) []labels.Labels {
	var out []labels.Labels
	for _, w := range ws {
		for _, s := range w {
			out = append(out, s.lset)
		}
	}
	return out
}
