package xbkt

// C09, concurrent reservations: BucketStore.Series creates one series limiter and one chunks
// limiter per request and shares them between the goroutines that process the queried blocks, so the
// limit is only enforced if concurrent Reserve calls are all accounted for.
// Oracle on the real store.Limiter: the sum of the amounts whose Reserve returned nil never exceeds
// the limit; when the total requested amount fits the limit every Reserve succeeds. Scheduling only
// decides how much the calls overlap (sensitivity), never the verdict.

import (
	"fmt"
	"sync"
	"sync/atomic"
	"testing"

	"github.com/prometheus/client_golang/prometheus"
	"pgregory.net/rapid"

	"github.com/thanos-io/thanos/pkg/store"
	"github.com/thanos-io/thanos/verifx/kit"
)

func TestVerifC09_LimiterConcurrent(t *testing.T) {
	rec := kit.For(t, "C09")
	n := kit.Scale("c09limiter", 40, 400)
	type cs struct {
		workers, perWorker int
		amount             uint64
		slack              int64 // limit = total requested + slack (negative: must refuse some)
	}
	gen := rapid.Custom(func(rt *rapid.T) cs {
		return cs{
			workers:   rapid.SampledFrom([]int{2, 4, 8, 16}).Draw(rt, "workers"),
			perWorker: rapid.SampledFrom([]int{2000, 10000, 40000}).Draw(rt, "perWorker"),
			amount:    uint64(rapid.SampledFrom([]int{1, 1, 3}).Draw(rt, "amount")),
			slack:     int64(rapid.SampledFrom([]int{-1, -1, -100, 0, 1, -5000}).Draw(rt, "slack")),
		}
	})
	for i := 0; i < n; i++ {
		c := gen.Example(int(kit.Seed())*131 + i)
		total := uint64(c.workers*c.perWorker) * c.amount
		limit := uint64(int64(total) + c.slack)
		lim := store.NewLimiter(limit, prometheus.NewCounter(prometheus.CounterOpts{}))
		var granted, refused atomic.Uint64
		var wg sync.WaitGroup
		start := make(chan struct{})
		for w := 0; w < c.workers; w++ {
			wg.Add(1)
			go func() {
				defer wg.Done()
				<-start
				for k := 0; k < c.perWorker; k++ {
					if err := lim.Reserve(c.amount); err != nil {
						refused.Add(1)
					} else {
						granted.Add(c.amount)
					}
				}
			}()
		}
		close(start)
		wg.Wait()
		desc := fmt.Sprintf("workers=%d reserves/worker=%d amount=%d limit=%d (requested %d)", c.workers, c.perWorker, c.amount, limit, total)
		if g := granted.Load(); g > limit {
			rec.Violation(t, "limiter granted %d with limit %d under concurrent Reserve calls | %s", g, limit, desc)
		}
		if c.slack >= 0 && refused.Load() > 0 {
			rec.Violation(t, "limiter refused %d reservations although the total requested amount fits the limit | %s", refused.Load(), desc)
		}
		rec.Case("limiter-concurrent "+desc, c.slack < 0, "limiter-concurrent", fmt.Sprintf("limiter-workers-%d", c.workers))
	}
}
