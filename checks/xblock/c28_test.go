package xblock

// C28 A block is visible in object storage only when all its files are.
//
// Scenarios of this group (replication lives in the in-package group replicatei):
//   TestVerifC28_Upload   block.Upload of a generated block (1..3 chunk segment files)
//   TestVerifC28_Delete   block.MarkForDeletion + block.Delete (and Delete of unmarked / partial blocks)
//   TestVerifC28_Shipper  shipper.Sync of a TSDB directory with 1..2 blocks
// Every scenario is run crash-free over the F-opbucket wrapper, then with a crash (freeze) after
// every prefix 0..M of its bucket-mutation sequence followed by a restart on the same bucket / local
// directory, then with every single bucket operation (reads included) failing once followed by a
// retry. The oracle is evaluated on the inner bucket after EVERY applied mutation of every life:
//   (1) meta.json present => every index / chunk file listed in meta.json exists with that size;
//   (2) deletion started with a deletion mark => the mark is present while any other object of the
//       block is left.

import (
	"context"
	"fmt"
	"os"
	"path/filepath"
	"strings"
	"testing"

	"github.com/go-kit/log"
	"github.com/oklog/ulid/v2"
	"github.com/prometheus/client_golang/prometheus"
	"github.com/prometheus/prometheus/model/labels"
	"github.com/thanos-io/objstore"
	"pgregory.net/rapid"

	"github.com/thanos-io/thanos/pkg/block"
	"github.com/thanos-io/thanos/pkg/block/metadata"
	"github.com/thanos-io/thanos/pkg/shipper"
	"github.com/thanos-io/thanos/verifx/kit"
)

var c28Logger = log.NewNopLogger()

// c28ThanosBlock builds a block and injects a Thanos meta section (as every Thanos producer does
// before block.Upload).
func c28ThanosBlock(parent string, spec blockSpec, ext map[string]string) (builtBlock, error) {
	b, err := buildBlock(parent, spec)
	if err != nil {
		return b, err
	}
	if _, err := metadata.InjectThanos(c28Logger, b.Dir, metadata.Thanos{
		Labels:     ext,
		Downsample: metadata.ThanosDownsample{Resolution: 0},
		Source:     metadata.TestSource,
	}, nil); err != nil {
		return b, err
	}
	return b, nil
}

func c28UploadOpts(rt *rapid.T) (metadata.HashFunc, []objstore.UploadOption, string) {
	hf := metadata.NoneFunc
	if rapid.Bool().Draw(rt, "sha256") {
		hf = metadata.SHA256Func
	}
	conc := rapid.SampledFrom([]int{0, 0, 1, 2, 4}).Draw(rt, "uploadConcurrency")
	var opts []objstore.UploadOption
	if conc > 0 {
		opts = append(opts, objstore.WithUploadConcurrency(conc))
	}
	return hf, opts, fmt.Sprintf("hash=%q conc=%d", string(hf), conc)
}

// c28Complete uploads block b completely into a fresh in-memory bucket (setup, not under test).
func c28Complete(dirs ...string) (map[string][]byte, error) {
	bkt := objstore.NewInMemBucket()
	for _, d := range dirs {
		if err := block.Upload(context.Background(), c28Logger, bkt, d, metadata.NoneFunc); err != nil {
			return nil, err
		}
	}
	return bkt.Objects(), nil
}

func c28Run(rt *rapid.T, rec *kit.Rec, sc vScenario, extra ...string) {
	viol, muts, _ := vEnumerate(sc, func(key string, nt bool, classes ...string) {
		rec.Case(key, nt, append(classes, extra...)...)
	})
	if viol != "" {
		rt.Fatalf("C28 violated in scenario %s (M=%d): %s", sc.Name, muts, viol)
	}
}

func TestVerifC28_Upload(t *testing.T) {
	rec := kit.For(t, "C28")
	rec.Check(t, func(rt *rapid.T) {
		tmp, err := os.MkdirTemp("", "c28u-")
		if err != nil {
			rt.Fatalf("HARNESS: %v", err)
		}
		defer os.RemoveAll(tmp)
		spec := genBlockSpec(rt, "b", 1_600_000_000_000)
		b, err := c28ThanosBlock(tmp, spec, map[string]string{"ext": "1"})
		if err != nil {
			rt.Fatalf("HARNESS: build block: %v", err)
		}
		if err := checkBlockReadable(b); err != nil {
			rt.Fatalf("HARNESS: %v", err)
		}
		hf, opts, optStr := c28UploadOpts(rt)
		// the local meta.json may already carry a file list (a block directory produced from a
		// downloaded block - downsampling, bucket rewrite - inherits the source's list): here with the
		// hashes of the requested kind but sizes of other content
		if rapid.IntRange(0, 2).Draw(rt, "inheritedFileList") == 0 {
			m, err := metadata.ReadFromDir(b.Dir)
			if err != nil {
				rt.Fatalf("HARNESS: %v", err)
			}
			m.Thanos.Files = nil
			for _, rel := range sortedKeys(b.Files) {
				f := metadata.File{RelPath: rel, SizeBytes: b.Files[rel] + int64(rapid.IntRange(1, 9).Draw(rt, "sizeOff"))}
				if hf != metadata.NoneFunc {
					f.Hash = &metadata.ObjectHash{Func: hf, Value: "00"}
				}
				m.Thanos.Files = append(m.Thanos.Files, f)
			}
			if rapid.Bool().Draw(rt, "inheritedExtraSegment") {
				extra := metadata.File{RelPath: "chunks/000099", SizeBytes: 5}
				if hf != metadata.NoneFunc {
					extra.Hash = &metadata.ObjectHash{Func: hf, Value: "00"}
				}
				m.Thanos.Files = append(m.Thanos.Files, extra)
			}
			if err := m.WriteToDir(c28Logger, b.Dir); err != nil {
				rt.Fatalf("HARNESS: %v", err)
			}
			optStr += " inherited-file-list"
		}
		initial := map[string][]byte{}
		withOther := rapid.Bool().Draw(rt, "otherBlockPresent")
		if withOther {
			ospec := genBlockSpec(rt, "o", 1_600_100_000_000)
			ob, err := c28ThanosBlock(filepath.Join(tmp, "other"), ospec, map[string]string{"ext": "2"})
			if err != nil {
				rt.Fatalf("HARNESS: build block: %v", err)
			}
			if ob.ID == b.ID {
				rt.Skip("same ULID drawn twice")
			}
			if initial, err = c28Complete(ob.Dir); err != nil {
				rt.Fatalf("HARNESS: %v", err)
			}
		}
		lex := rapid.Bool().Draw(rt, "lexicographicListing")
		sc := vScenario{
			Name:    fmt.Sprintf("upload %s %s other=%v lex=%v", b.render(), optStr, withOther, lex),
			Segs:    b.Segments,
			Lex:     lex,
			Initial: initial,
			Run: func(ctx context.Context, bkt objstore.Bucket, _ any) error {
				return block.Upload(ctx, c28Logger, bkt, b.Dir, hf, opts...)
			},
		}
		c28Run(rt, rec, sc, "scenario-upload")
	})
	if !t.Failed() {
		rec.Exhaustive(true)
	}
}

func TestVerifC28_Delete(t *testing.T) {
	rec := kit.For(t, "C28")
	rec.Check(t, func(rt *rapid.T) {
		tmp, err := os.MkdirTemp("", "c28d-")
		if err != nil {
			rt.Fatalf("HARNESS: %v", err)
		}
		defer os.RemoveAll(tmp)
		spec := genBlockSpec(rt, "b", 1_600_000_000_000)
		b, err := c28ThanosBlock(tmp, spec, map[string]string{"ext": "1"})
		if err != nil {
			rt.Fatalf("HARNESS: build block: %v", err)
		}
		dirs := []string{b.Dir}
		withOther := rapid.Bool().Draw(rt, "otherBlockPresent")
		if withOther {
			ospec := genBlockSpec(rt, "o", 1_600_100_000_000)
			ob, err := c28ThanosBlock(filepath.Join(tmp, "other"), ospec, map[string]string{"ext": "2"})
			if err != nil {
				rt.Fatalf("HARNESS: build block: %v", err)
			}
			if ob.ID == b.ID {
				rt.Skip("same ULID drawn twice")
			}
			dirs = append(dirs, ob.Dir)
		}
		initial, err := c28Complete(dirs...)
		if err != nil {
			rt.Fatalf("HARNESS: %v", err)
		}
		id := ulid.MustParse(b.ID)
		// mode: how the deletion is started
		//   mark+delete  MarkForDeletion then Delete in one life (bucket tools, retention, compactor GC)
		//   premarked    the mark is already there (cleaner deletes a marked block after the delay)
		//   unmarked     Delete of a block without a mark (partial-upload clean-up): only oracle (1)
		mode := rapid.SampledFrom([]string{"mark+delete", "mark+delete", "premarked", "unmarked"}).Draw(rt, "mode")
		partial := false
		if mode == "unmarked" {
			partial = rapid.Bool().Draw(rt, "partialUpload")
		}
		extras := rapid.SliceOfDistinct(rapid.SampledFrom([]string{"no-compact-mark.json", "no-downsample-mark.json"}), func(s string) string { return s }).Draw(rt, "extraObjects")
		for _, e := range extras {
			initial[b.ID+"/"+e] = []byte(`{"id":"` + b.ID + `","version":1}`)
		}
		if partial {
			// an aborted upload: meta.json never arrived, and possibly not all data files.
			delete(initial, b.ID+"/meta.json")
			keep := rapid.IntRange(0, len(b.Files)).Draw(rt, "partialKeep")
			for i, f := range sortedKeys(b.Files) {
				if i >= keep {
					delete(initial, b.ID+"/"+f)
				}
			}
		}
		started := map[string]bool{}
		if mode == "premarked" {
			initial[b.ID+"/deletion-mark.json"] = []byte(`{"id":"` + b.ID + `","version":1,"deletion_time":1}`)
			started[b.ID] = true
		}
		counter := prometheus.NewCounter(prometheus.CounterOpts{Name: "c28_marked"})
		lex := rapid.Bool().Draw(rt, "lexicographicListing")
		sc := vScenario{
			Name:    fmt.Sprintf("delete mode=%s partial=%v extras=%v %s other=%v lex=%v", mode, partial, extras, b.render(), withOther, lex),
			Segs:    b.Segments,
			Lex:     lex,
			Initial: initial,
			Started: started,
			Run: func(ctx context.Context, bkt objstore.Bucket, _ any) error {
				if mode == "mark+delete" {
					if err := block.MarkForDeletion(ctx, c28Logger, bkt, id, "c28", counter); err != nil {
						return err
					}
				}
				return block.Delete(ctx, c28Logger, bkt, id)
			},
		}
		c28Run(rt, rec, sc, "scenario-delete", "delete-"+mode)
	})
	if !t.Failed() {
		rec.Exhaustive(true)
	}
}

// c28Shipper is the local state of one shipper scenario run: a TSDB directory.
type c28ShipperLocal struct{ dir string }

func TestVerifC28_Shipper(t *testing.T) {
	rec := kit.For(t, "C28")
	rec.Check(t, func(rt *rapid.T) {
		tmp, err := os.MkdirTemp("", "c28s-")
		if err != nil {
			rt.Fatalf("HARNESS: %v", err)
		}
		defer os.RemoveAll(tmp)
		tmpl := filepath.Join(tmp, "template")
		n := rapid.IntRange(1, 2).Draw(rt, "blocks")
		var blocks []builtBlock
		var names []string
		segs := 0
		minT := int64(1_600_000_000_000)
		for i := 0; i < n; i++ {
			spec := genBlockSpec(rt, fmt.Sprintf("b%d", i), minT)
			spec.Level = rapid.SampledFrom([]int{1, 1, 1, 2}).Draw(rt, "level")
			b, err := buildBlock(tmpl, spec) // plain Prometheus block: no Thanos section
			if err != nil {
				rt.Fatalf("HARNESS: build block: %v", err)
			}
			for _, o := range blocks {
				if o.ID == b.ID {
					rt.Skip("same ULID drawn twice")
				}
			}
			blocks = append(blocks, b)
			names = append(names, b.render())
			if b.Segments > segs {
				segs = b.Segments
			}
			minT = spec.MaxT() + int64(rapid.IntRange(0, 3).Draw(rt, "gap"))*1000
		}
		hf := metadata.NoneFunc
		if rapid.Bool().Draw(rt, "sha256") {
			hf = metadata.SHA256Func
		}
		conc := rapid.SampledFrom([]int{0, 0, 2}).Draw(rt, "uploadConcurrency")
		uploadCompacted := rapid.Bool().Draw(rt, "uploadCompacted")
		ooo := rapid.Bool().Draw(rt, "allowOutOfOrder")
		lset := labels.FromStrings("ext", "1")
		runs := 0
		lex := rapid.Bool().Draw(rt, "lexicographicListing")
		sc := vScenario{
			Name:    fmt.Sprintf("shipper [%s] hash=%q conc=%d compacted=%v ooo=%v lex=%v", strings.Join(names, ", "), string(hf), conc, uploadCompacted, ooo, lex),
			Segs:    segs,
			Lex:     lex,
			Initial: map[string][]byte{},
			NewLocal: func() (any, error) {
				runs++
				d := filepath.Join(tmp, fmt.Sprintf("tsdb-%d", runs))
				if err := copyTree(tmpl, d); err != nil {
					return nil, err
				}
				return &c28ShipperLocal{dir: d}, nil
			},
			CloseLocal: func(l any) { _ = os.RemoveAll(l.(*c28ShipperLocal).dir) },
			Run: func(ctx context.Context, bkt objstore.Bucket, l any) error {
				root, err := os.OpenRoot(l.(*c28ShipperLocal).dir)
				if err != nil {
					return err
				}
				s := shipper.New(bkt, root,
					shipper.WithLogger(c28Logger),
					shipper.WithSource(metadata.SidecarSource),
					shipper.WithHashFunc(hf),
					shipper.WithLabels(func() labels.Labels { return lset }),
					shipper.WithUploadCompacted(uploadCompacted),
					shipper.WithAllowOutOfOrderUploads(ooo),
					shipper.WithUploadConcurrency(conc),
				)
				defer s.Close()
				_, err = s.Sync(ctx)
				return err
			},
		}
		c28Run(rt, rec, sc, "scenario-shipper")
	})
	if !t.Failed() {
		rec.Exhaustive(true)
	}
}
