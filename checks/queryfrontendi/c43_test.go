package queryfrontend

// C43 Results-cache keys separate tenants and result-changing parameters.
//
// In-package because thanosCacheKeyGenerator is unexported. Two cacheable requests (dedup on, no store
// matchers, same start, same split interval, hence the same interval bucket) whose tenant or
// result-changing parameters differ are handed to the real GenerateCacheKey; the keys must differ.
// "Differ" is decided on an unambiguous canonical rendering of the parameters (every string quoted),
// which is independent of the key format under test. Three generators:
//   one-dim    : b = a with exactly one dimension changed (density on every listed parameter);
//   same-concat: constructive pairs whose naive concatenation is equal but whose split differs
//                (tenant|query, tenant|label, replica label lists);
//   free       : two independent requests over small collision-rich alphabets.

import (
	"fmt"
	"os"
	"sort"
	"strconv"
	"strings"
	"testing"
	"time"

	"github.com/prometheus/prometheus/model/labels"
	"github.com/prometheus/prometheus/promql/parser"
	"pgregory.net/rapid"

	"github.com/thanos-io/thanos/internal/cortex/querier/queryrange"
	"github.com/thanos-io/thanos/pkg/store/storepb"
	"github.com/thanos-io/thanos/verifx/kit"
)

const (
	// ':' separates tenant, query / label / matchers in the key but is legal inside each of them.
	c43SigColon = "C43/colon-separator-not-escaped"
	// replica labels are joined with ',' which is legal inside a (UTF-8) label name.
	c43SigReplicaComma = "C43/replica-labels-comma-join"
	// the series key ignores replicaLabels[] although dedup (mandatory for caching) uses them.
	c43SigSeriesReplica = "C43/series-key-ignores-replica-labels"
	// the labels / series keys ignore partial_response.
	c43SigMetaPartial = "C43/metadata-key-ignores-partial-response"
)

type c43Req struct {
	kind     string // "range" | "labels" | "series"
	tenant   string
	query    string   // range
	step     int64    // range
	maxRes   int64    // range: max_source_resolution in ms
	shard    [2]int64 // range: total, index; total == 0 means no shard info
	lookback int64    // range
	engine   string   // range
	partial  bool
	replica  []string            // range, series
	analyze  bool                // range
	label    string              // labels
	matchers [][]*labels.Matcher // labels, series
}

// c43ResBucket: which downsampling levels a max_source_resolution admits (raw only / raw+5m / all);
// values inside one bucket select the same data, so only the bucket is a result-changing parameter.
func c43ResBucket(ms int64) int {
	switch {
	case ms < 5*60*1000:
		return 0
	case ms < 60*60*1000:
		return 1
	}
	return 2
}

func c43StringSet(ss []string) []string {
	m := map[string]struct{}{}
	for _, s := range ss {
		m[s] = struct{}{}
	}
	out := make([]string, 0, len(m))
	for s := range m {
		out = append(out, s)
	}
	sort.Strings(out)
	return out
}

func c43QuoteAll(ss []string) string {
	q := make([]string, len(ss))
	for i, s := range ss {
		q[i] = strconv.Quote(s)
	}
	return "[" + strings.Join(q, ",") + "]"
}

func c43MatchersCanon(mss [][]*labels.Matcher) string {
	var sb strings.Builder
	for _, ms := range mss {
		sb.WriteString("{")
		for _, m := range ms {
			fmt.Fprintf(&sb, "(%s %d %s)", strconv.Quote(m.Name), int(m.Type), strconv.Quote(m.Value))
		}
		sb.WriteString("}")
	}
	return sb.String()
}

// canon renders exactly the tenant and the result-changing parameters, unambiguously.
func (r c43Req) canon() string {
	switch r.kind {
	case "range":
		return fmt.Sprintf("range tenant=%s query=%s step=%d res=%d shard=%d/%d lookback=%d engine=%s partial=%v replica=%s analyze=%v",
			strconv.Quote(r.tenant), strconv.Quote(r.query), r.step, c43ResBucket(r.maxRes), r.shard[1], r.shard[0], r.lookback,
			strconv.Quote(r.engine), r.partial, c43QuoteAll(c43StringSet(r.replica)), r.analyze)
	case "labels":
		return fmt.Sprintf("labels tenant=%s label=%s matchers=%s partial=%v", strconv.Quote(r.tenant), strconv.Quote(r.label), c43MatchersCanon(r.matchers), r.partial)
	default:
		return fmt.Sprintf("series tenant=%s matchers=%s partial=%v replica=%s", strconv.Quote(r.tenant), c43MatchersCanon(r.matchers), r.partial, c43QuoteAll(c43StringSet(r.replica)))
	}
}

func (r c43Req) String() string {
	return r.canon() + fmt.Sprintf(" (maxRes=%d replicaRaw=%q)", r.maxRes, r.replica)
}

const c43Split = 24 * time.Hour

// key asks the real generator. start/end are the same for both requests of a pair.
func (r c43Req) key(start, end int64) string {
	return newThanosCacheKeyGenerator().GenerateCacheKey(r.tenant, r.request(start, end))
}

// lookupKeys returns every key the results cache looks the request up under: its own key and, for
// range requests, the alternative keys of lower common steps.
func (r c43Req) lookupKeys(start, end int64) []string {
	g := newThanosCacheKeyGenerator()
	req := r.request(start, end)
	return append([]string{g.GenerateCacheKey(r.tenant, req)}, g.GenerateCacheKeyAlternatives(r.tenant, req)...)
}

// sameButStep: b is a with another step (the only kind of request an alternative key may denote).
func c43SameButStep(a, b c43Req) bool {
	if a.kind != "range" || b.kind != "range" {
		return false
	}
	b.step = a.step
	return a.canon() == b.canon()
}

func (r c43Req) request(start, end int64) queryrange.Request {
	var req queryrange.Request
	switch r.kind {
	case "range":
		q := &ThanosQueryRangeRequest{
			Path: "/api/v1/query_range", Start: start, End: end, Step: r.step, Query: r.query, Dedup: true,
			PartialResponse: r.partial, MaxSourceResolution: r.maxRes, ReplicaLabels: r.replica,
			LookbackDelta: r.lookback, Analyze: r.analyze, Engine: r.engine, SplitInterval: c43Split,
		}
		if r.shard[0] > 0 {
			q.ShardInfo = &storepb.ShardInfo{TotalShards: r.shard[0], ShardIndex: r.shard[1], By: true, Labels: []string{"pod"}}
		}
		req = q
	case "labels":
		path := "/api/v1/labels"
		if r.label != "" {
			path = "/api/v1/label/" + r.label + "/values"
		}
		req = &ThanosLabelsRequest{Path: path, Start: start, End: end, Label: r.label, Matchers: r.matchers, PartialResponse: r.partial, SplitInterval: c43Split}
	default:
		req = &ThanosSeriesRequest{Path: "/api/v1/series", Start: start, End: end, Dedup: true, PartialResponse: r.partial, ReplicaLabels: r.replica, Matchers: r.matchers, SplitInterval: c43Split}
	}
	if !shouldCache(req) {
		panic("harness: generated request is not cacheable")
	}
	return req
}

// ---- generators --------------------------------------------------------------------------------

// tenants: anything the frontend's tenant resolver accepts (no '/', '\\', not "." or ".."), taken from a
// header value, so printable; a small alphabet rich in the key's separator characters.
func c43GenTenant(t *rapid.T, label string) string {
	if rapid.IntRange(0, 3).Draw(t, label+"Plain") == 0 {
		return rapid.SampledFrom([]string{"anonymous", "team-a", "team-b", "1", "2"}).Draw(t, label)
	}
	s := rapid.StringOfN(rapid.RuneFrom([]rune("abAB01:-_.,;= ")), 1, 6, -1).Draw(t, label)
	if s == "." || s == ".." || strings.TrimSpace(s) == "" {
		return "a" + s
	}
	return s
}

func c43GenName(t *rapid.T, label string) string {
	// PromQL metric identifiers may contain ':' (recording rule names)
	return rapid.StringMatching(`[abc][abc:01]{0,5}`).Draw(t, label)
}

// c43GenQuery returns a query in the normal form the split middleware produces (expr.String()).
func c43GenQuery(t *rapid.T, label string) string {
	n := c43GenName(t, label+"N")
	var q string
	switch rapid.IntRange(0, 5).Draw(t, label+"Kind") {
	case 0, 1:
		q = n
	case 2:
		v := rapid.StringOfN(rapid.RuneFrom([]rune("ab:,\" ")), 0, 4, -1).Draw(t, label+"V")
		q = n + "{l=" + strconv.Quote(v) + "}"
	case 3:
		q = "sum by (pod) (rate(" + n + "[5m]))"
	case 4:
		q = n + " + " + c43GenName(t, label+"N2")
	default:
		q = "sum(" + n + ")"
	}
	e, err := parser.ParseExpr(q)
	if err != nil {
		return "up"
	}
	return e.String()
}

var c43Steps = []int64{1000, 15000, 30000, 60000, 300000, 3600000, 7000}
var c43MaxRes = []int64{0, 1000, 299999, 300000, 600000, 3599999, 3600000, 7200000}
var c43Lookbacks = []int64{0, 1, 60000, 300000, 600000}
var c43Engines = []string{"", "prometheus", "thanos"}
var c43ReplicaNames = []string{"replica", "prometheus_replica", "a", "b", "rule_replica"}
var c43ReplicaNamesUTF8 = []string{"a", "b", "a,b", "b,a", "replica", "rep,lica", "a:b"}

func c43GenReplica(t *rapid.T, label string, utf8 bool) []string {
	names := c43ReplicaNames
	if utf8 {
		names = c43ReplicaNamesUTF8
	}
	return rapid.SliceOfN(rapid.SampledFrom(names), 0, 3).Draw(t, label)
}

func c43GenMatchers(t *rapid.T, label string) [][]*labels.Matcher {
	n := rapid.IntRange(0, 2).Draw(t, label+"Sets")
	out := make([][]*labels.Matcher, 0, n)
	for i := 0; i < n; i++ {
		k := rapid.IntRange(1, 2).Draw(t, label+"K")
		var ms []*labels.Matcher
		for j := 0; j < k; j++ {
			name := rapid.SampledFrom([]string{"a", "b", "__name__", "a:b", "a b"}).Draw(t, label+"Name")
			typ := rapid.SampledFrom([]labels.MatchType{labels.MatchEqual, labels.MatchNotEqual, labels.MatchRegexp, labels.MatchNotRegexp}).Draw(t, label+"Type")
			val := rapid.StringOfN(rapid.RuneFrom([]rune("ab:\" ]=[")), 0, 4, -1).Draw(t, label+"Val")
			m, err := labels.NewMatcher(typ, name, val)
			if err != nil { // invalid regexp: fall back to equality
				m = labels.MustNewMatcher(labels.MatchEqual, name, val)
			}
			ms = append(ms, m)
		}
		out = append(out, ms)
	}
	return out
}

func c43GenShard(t *rapid.T, label string) [2]int64 {
	if rapid.Bool().Draw(t, label+"None") {
		return [2]int64{0, 0}
	}
	total := rapid.Int64Range(1, 12).Draw(t, label+"Total")
	return [2]int64{total, rapid.Int64Range(0, total-1).Draw(t, label+"Idx")}
}

func c43GenReq(t *rapid.T, kind, label string, utf8Replica bool) c43Req {
	r := c43Req{kind: kind, tenant: c43GenTenant(t, label+"Tenant"), partial: rapid.Bool().Draw(t, label+"Partial")}
	switch kind {
	case "range":
		r.query = c43GenQuery(t, label+"Q")
		r.step = rapid.SampledFrom(c43Steps).Draw(t, label+"Step")
		r.maxRes = rapid.SampledFrom(c43MaxRes).Draw(t, label+"Res")
		r.shard = c43GenShard(t, label+"Shard")
		r.lookback = rapid.SampledFrom(c43Lookbacks).Draw(t, label+"Lb")
		r.engine = rapid.SampledFrom(c43Engines).Draw(t, label+"Eng")
		r.replica = c43GenReplica(t, label+"Rep", utf8Replica)
		r.analyze = rapid.Bool().Draw(t, label+"An")
	case "labels":
		if rapid.Bool().Draw(t, label+"Values") {
			r.label = rapid.SampledFrom([]string{"a", "b", "job", "a:b", "b:", "a.b"}).Draw(t, label+"Label")
		}
		r.matchers = c43GenMatchers(t, label+"M")
	default:
		r.matchers = c43GenMatchers(t, label+"M")
		r.replica = c43GenReplica(t, label+"Rep", utf8Replica)
	}
	return r
}

func c43PickOther[T comparable](t *rapid.T, label string, from []T, not T) T {
	var cands []T
	for _, x := range from {
		if x != not {
			cands = append(cands, x)
		}
	}
	return rapid.SampledFrom(cands).Draw(t, label)
}

// c43Mutate changes exactly one dimension of a; returns the changed copy and the dimension's name.
func c43Mutate(t *rapid.T, a c43Req) (c43Req, string) {
	b := a
	b.replica = append([]string(nil), a.replica...)
	var dims []string
	switch a.kind {
	case "range":
		dims = []string{"tenant", "query", "step", "resolution", "shard", "lookback", "engine", "partial", "replica", "analyze"}
	case "labels":
		dims = []string{"tenant", "label", "matchers", "meta-partial"}
	default:
		dims = []string{"tenant", "matchers", "meta-partial", "series-replica"}
	}
	dim := rapid.SampledFrom(dims).Draw(t, "dim")
	switch dim {
	case "tenant":
		b.tenant = c43GenTenant(t, "tenant2")
	case "query":
		b.query = c43GenQuery(t, "q2")
	case "step":
		b.step = c43PickOther(t, "step2", c43Steps, a.step)
	case "resolution":
		b.maxRes = rapid.SampledFrom(c43MaxRes).Draw(t, "res2")
	case "shard":
		b.shard = c43GenShard(t, "shard2")
	case "lookback":
		b.lookback = c43PickOther(t, "lb2", c43Lookbacks, a.lookback)
	case "engine":
		b.engine = c43PickOther(t, "eng2", c43Engines, a.engine)
	case "partial", "meta-partial":
		b.partial = !a.partial
	case "replica", "series-replica":
		b.replica = c43GenReplica(t, "rep2", false)
	case "analyze":
		b.analyze = !a.analyze
	case "label":
		b.label = rapid.SampledFrom([]string{"", "a", "b", "job", "a:b", "b:", "a.b"}).Draw(t, "label2")
	case "matchers":
		b.matchers = c43GenMatchers(t, "m2")
	}
	return b, dim
}

// ---- known-finding classes (narrow: exactly the ambiguity each root cause creates) -------------

// c43FreeText is the ':'-separated free-text prefix of the key for each request kind.
func (r c43Req) c43FreeText() (fields []string, concat string) {
	switch r.kind {
	case "range":
		fields = []string{r.tenant, r.query}
	case "labels":
		fields = []string{r.tenant, r.label, fmt.Sprintf("%s", r.matchers)}
	default:
		fields = []string{r.tenant, fmt.Sprintf("%s", r.matchers)}
	}
	return fields, strings.Join(fields, ":")
}

// c43ColonAmbiguous: the free-text fields differ but their ':'-joined concatenation is the same.
func c43ColonAmbiguous(a, b c43Req) bool {
	fa, ca := a.c43FreeText()
	fb, cb := b.c43FreeText()
	return ca == cb && strings.Join(fa, "\x00") != strings.Join(fb, "\x00")
}

// c43CommaAmbiguous: replica label sets differ but their sorted ','-join is the same.
func c43CommaAmbiguous(a, b c43Req) bool {
	if a.kind != "range" {
		return false
	}
	sa, sb := append([]string(nil), a.replica...), append([]string(nil), b.replica...)
	sort.Strings(sa)
	sort.Strings(sb)
	return strings.Join(sa, ",") == strings.Join(sb, ",") && c43QuoteAll(c43StringSet(a.replica)) != c43QuoteAll(c43StringSet(b.replica))
}

func c43SeriesReplicaDiffer(a, b c43Req) bool {
	return a.kind == "series" && c43QuoteAll(c43StringSet(a.replica)) != c43QuoteAll(c43StringSet(b.replica))
}

func c43MetaPartialDiffer(a, b c43Req) bool {
	return a.kind != "range" && a.partial != b.partial
}

// c43Excluded returns the known-finding signature the pair falls under, or "".
func c43Excluded(known map[string]bool, a, b c43Req) string {
	switch {
	case known[c43SigColon] && c43ColonAmbiguous(a, b):
		return c43SigColon
	case known[c43SigReplicaComma] && c43CommaAmbiguous(a, b):
		return c43SigReplicaComma
	case known[c43SigSeriesReplica] && c43SeriesReplicaDiffer(a, b):
		return c43SigSeriesReplica
	case known[c43SigMetaPartial] && c43MetaPartialDiffer(a, b):
		return c43SigMetaPartial
	}
	return ""
}

func c43HasSeparator(r c43Req) bool {
	return strings.ContainsAny(r.tenant, ":,") || strings.ContainsAny(r.query, ":,") || strings.ContainsAny(r.label, ":,") ||
		strings.ContainsAny(strings.Join(r.replica, ""), ":,")
}

// c43Check returns "" or the violation text for a pair with the same start/end.
func c43Check(a, b c43Req, start, end int64) string {
	if a.canon() == b.canon() {
		return ""
	}
	ka, kb := a.key(start, end), b.key(start, end)
	if ka == kb {
		return fmt.Sprintf("two requests that differ map to the same results-cache key %q\n  a: %s\n  b: %s", ka, a, b)
	}
	// The cache also looks a range request up under the keys of lower common steps. Such a key may
	// only be the key of the same request at another step, never of a request that differs otherwise.
	for _, x := range [][2]c43Req{{a, b}, {b, a}} {
		if c43SameButStep(x[0], x[1]) {
			continue
		}
		other := x[1].key(start, end)
		for _, k := range x[0].lookupKeys(start, end)[1:] {
			if k == other {
				return fmt.Sprintf("a request is looked up under the results-cache key %q of a request that differs in more than the step\n  looked up: %s\n  owner of the key: %s", k, x[0], x[1])
			}
		}
	}
	return ""
}

type c43Saved struct {
	sig  string
	what string
	a, b c43Req
}

func c43SavedInputs() []c43Saved {
	sel := [][]*labels.Matcher{{labels.MustNewMatcher(labels.MatchEqual, "__name__", "up")}}
	return []c43Saved{
		{c43SigColon, "range: tenant \"a:b\" query \"c\" vs tenant \"a\" query \"b:c\"",
			c43Req{kind: "range", tenant: "a:b", query: "c", step: 15000}, c43Req{kind: "range", tenant: "a", query: "b:c", step: 15000}},
		{c43SigColon, "label values: tenant \"a:b\" label \"c\" vs tenant \"a\" label \"b:c\"",
			c43Req{kind: "labels", tenant: "a:b", label: "c"}, c43Req{kind: "labels", tenant: "a", label: "b:c"}},
		{c43SigReplicaComma, "range: replicaLabels [\"a,b\"] vs [\"a\",\"b\"]",
			c43Req{kind: "range", tenant: "t", query: "up", step: 15000, replica: []string{"a,b"}}, c43Req{kind: "range", tenant: "t", query: "up", step: 15000, replica: []string{"a", "b"}}},
		{c43SigSeriesReplica, "series: replicaLabels [\"replica\"] vs none",
			c43Req{kind: "series", tenant: "t", matchers: sel, replica: []string{"replica"}}, c43Req{kind: "series", tenant: "t", matchers: sel}},
		{c43SigMetaPartial, "labels: partial_response true vs false",
			c43Req{kind: "labels", tenant: "t", partial: true}, c43Req{kind: "labels", tenant: "t", partial: false}},
		{c43SigMetaPartial, "series: partial_response true vs false",
			c43Req{kind: "series", tenant: "t", matchers: sel, partial: true}, c43Req{kind: "series", tenant: "t", matchers: sel, partial: false}},
	}
}

const c43Start, c43End = int64(1600000000000), int64(1600000000000 + 3600000)

func TestVerifC43(t *testing.T) {
	rec := kit.For(t, "C43")
	known := kit.KnownFindings("C43")
	noTable := os.Getenv("VERIF_NOTABLE") != ""

	// saved minimal inputs of the findings; ordinary pairs that must always be separated
	for _, s := range c43SavedInputs() {
		if noTable {
			break
		}
		if msg := c43Check(s.a, s.b, c43Start, c43End); msg != "" {
			if known[s.sig] {
				rec.Known(s.sig, s.what+": same key "+strconv.Quote(s.a.key(c43Start, c43End)))
			} else {
				rec.Violation(t, "saved input (%s) %s: %s", s.sig, s.what, msg)
			}
		}
	}

	rec.Check(t, func(rt *rapid.T) {
		kind := rapid.SampledFrom([]string{"range", "range", "labels", "series"}).Draw(rt, "kind")
		mode := rapid.SampledFrom([]string{"one-dim", "one-dim", "same-concat", "free"}).Draw(rt, "mode")
		start := c43Start + rapid.Int64Range(0, 3).Draw(rt, "day")*86400000 + rapid.Int64Range(0, 1000).Draw(rt, "off")*15000
		end := start + rapid.Int64Range(0, 240).Draw(rt, "len")*15000
		var a, b c43Req
		classes := []string{"kind-" + kind, "mode-" + mode}
		switch mode {
		case "one-dim":
			a = c43GenReq(rt, kind, "a", false)
			var dim string
			b, dim = c43Mutate(rt, a)
			classes = append(classes, "dim-"+dim)
		case "same-concat":
			// split one concatenation at two different places
			a = c43GenReq(rt, kind, "a", false)
			b = a
			x := rapid.StringMatching(`[abc][abc01]{0,3}`).Draw(rt, "x")
			switch {
			case kind == "range" && rapid.Bool().Draw(rt, "viaReplica"):
				y := rapid.StringMatching(`[abc][abc01]{0,3}`).Draw(rt, "y")
				a.replica = []string{x + "," + y}
				b.replica = []string{x, y}
				classes = append(classes, "concat-replica")
			case kind == "range":
				// (tenant+":"+x, q) vs (tenant, x+":"+q); x+":"+q must itself be a normal-form query
				bq := x + ":" + a.query
				if e, err := parser.ParseExpr(bq); err != nil || e.String() != bq {
					a.query, bq = "c", x+":c"
				}
				a.tenant, b.query = a.tenant+":"+x, bq
				classes = append(classes, "concat-tenant-query")
				if rapid.Bool().Draw(rt, "lowerStepOwner") {
					// b is cached at a lower common step that divides a's step: a is then also looked up
					// under b-like keys (alternative keys), which must still keep the two tenants apart
					a.step = rapid.SampledFrom([]int64{60000, 300000, 3600000}).Draw(rt, "aStep")
					b.step = rapid.SampledFrom([]int64{1000, 15000, 30000}).Draw(rt, "bStep")
					start -= start % 30000
					end = start + (end-start)/a.step*a.step
					classes = append(classes, "concat-tenant-query-lower-step")
				}
			case kind == "labels":
				y := rapid.StringMatching(`[abc][abc01]{0,3}`).Draw(rt, "y")
				a.tenant, a.label = b.tenant+":"+x, y
				b.label = x + ":" + y
				classes = append(classes, "concat-tenant-label")
			default:
				// series: tenant | matchers; a tenant that swallows a prefix of the matcher rendering
				ms := fmt.Sprintf("%s", a.matchers)
				if i := strings.Index(ms, ":"); i >= 0 {
					a.tenant = b.tenant + ":" + ms[:i]
				}
				classes = append(classes, "concat-series")
			}
		default:
			a = c43GenReq(rt, kind, "a", true)
			b = c43GenReq(rt, kind, "b", true)
			// make equal prefixes likely: share most dimensions half of the time
			if rapid.Bool().Draw(rt, "share") {
				keepTenant, keepQuery, keepRep := b.tenant, b.query, b.replica
				keepLabel, keepM := b.label, b.matchers
				b = a
				b.tenant, b.query, b.replica, b.label, b.matchers = keepTenant, keepQuery, keepRep, keepLabel, keepM
			}
		}
		if a.canon() == b.canon() {
			rec.Class("pair-not-different")
			return
		}
		if sig := c43Excluded(known, a, b); sig != "" {
			rec.Excluded(sig)
			return
		}
		if msg := c43Check(a, b, start, end); msg != "" {
			rt.Fatalf("C43 violated: %s", msg)
		}
		if c43ColonAmbiguous(a, b) || c43CommaAmbiguous(a, b) {
			classes = append(classes, "ambiguous-concatenation")
		}
		nt := c43HasSeparator(a) || c43HasSeparator(b)
		rec.Case(a.String()+" || "+b.String(), nt, classes...)
	})
}
