#!/usr/bin/env python3
"""seedeval.py <Cxx> [--thorough] [--skip-confirm] [--check Cyy ...]

Evaluates a seeded change produced by an independent sub-agent in /tmp/seed/<Cxx>/ :
 1. confirms it in the agent's scratch worktree: the demonstration fails with the patch and passes
    without it, and the pinned tests of the touched packages (no tags) that pass without the patch
    still pass with it;
 2. applies patch.diff to /repo, runs the registered check(s) of the property, reverts /repo;
 3. stores patch.diff, the demonstration and meta.json under /verif/seeded/<Cxx>/.
Nothing is ever committed to /repo.
"""
import json
import os
import re
import shutil
import subprocess
import sys
import time

ENV = dict(os.environ, GOFLAGS="-mod=mod", GOPROXY="off")
ENV.pop("GOSUMDB", None)


def sh(cmd, cwd=None, timeout=3600):
    p = subprocess.run(cmd, cwd=cwd, env=ENV, shell=isinstance(cmd, str), stdout=subprocess.PIPE,
                       stderr=subprocess.STDOUT, text=True, timeout=timeout)
    return p.returncode, p.stdout


BASE = {x.replace("github.com/thanos-io/thanos/", "") for x in json.load(open("/root/.vp/BASELINE.json"))["stable_pass"]}


def pkg_results(wt, pkgs, tags=None):
    """Runs only the pinned (stable_pass) top-level tests of each package: without the slicelabels tag
    other tests of several packages crash the binary at nondeterministic points."""
    res = {}
    for pkg in pkgs:
        tops = sorted({t.split("::")[1].split("/")[0] for t in BASE if t.split("::")[0] == pkg})
        if not tops:
            continue
        cmd = ["go", "test", "-json", "-vet=off", "-count=1", "-timeout", "20m", "-run", "^(" + "|".join(tops) + ")$"]
        if tags:
            cmd += ["-tags", tags]
        cmd.append("./" + pkg)
        rc, out = sh(cmd, cwd=wt, timeout=2400)
        for line in out.splitlines():
            try:
                e = json.loads(line)
            except Exception:
                continue
            if e.get("Test") and e.get("Action") in ("pass", "fail"):
                res[pkg + "::" + e["Test"]] = e["Action"]
    return res


def main():
    pid = sys.argv[1]
    thorough = "--thorough" in sys.argv
    skip_confirm = "--skip-confirm" in sys.argv
    checks = [pid]
    if "--check" in sys.argv:
        checks = sys.argv[sys.argv.index("--check") + 1:]
        checks = [c for c in checks if re.match(r"^C\d+$", c)]
    round2 = "--round2" in sys.argv
    round3 = "--round3" in sys.argv
    round4 = "--round4" in sys.argv
    sd = ("/tmp/seed4/" if round4 else "/tmp/seed3/" if round3 else "/tmp/seed2/" if round2 else "/tmp/seed/") + pid
    wt = sd + "/wt"
    out = sd + "/out"
    patch = out + "/patch.diff"
    meta = json.load(open(out + "/meta.json"))
    report = {"property": pid, "summary": meta.get("summary"), "needs_to_manifest": meta.get("needs_to_manifest"),
              "files": meta.get("files"), "ran": {}}
    if subprocess.run(["git", "-C", "/repo", "status", "--porcelain"], stdout=subprocess.PIPE, text=True).stdout.strip():
        print("refusing: /repo is not clean")
        return 2
    rc, o = sh(["git", "-C", "/repo", "apply", "--check", patch])
    if rc != 0:
        print("patch does not apply to /repo:", o)
        return 2
    demo = meta["demo"]
    demo["command"] = re.split(r"\s+\((?:same|also|with|or)\b", demo["command"])[0].strip()
    touched_pkgs = sorted({os.path.dirname(f) for f in meta.get("files", []) if f.endswith(".go")})
    if not skip_confirm:
        # state of the worktree: patch applied + demo in place (as the agent left it); normalise
        sh(["git", "checkout", "--", "."], cwd=wt)
        sh(["git", "clean", "-fdq"], cwd=wt)  # the agent may have left its demo under another file name
        place = os.path.join(wt, demo["place_in"])
        os.makedirs(place, exist_ok=True)
        shutil.copy(os.path.join(out, demo["file"]), os.path.join(place, demo["file"]))
        rc0, o0 = sh(demo["command"], cwd=wt, timeout=1800)
        rc, o = sh(["git", "apply", patch], cwd=wt)
        if rc != 0:
            print("patch does not apply to the clean worktree:", o)
            return 2
        rc1, o1 = sh(demo["command"], cwd=wt, timeout=1800)
        report["ran"]["demo_without_patch"] = {"cmd": demo["command"], "exit": rc0}
        report["ran"]["demo_with_patch"] = {"cmd": demo["command"], "exit": rc1, "tail": o1[-1500:]}
        print("demo without patch rc=%d, with patch rc=%d" % (rc0, rc1))
        if rc0 != 0 or rc1 == 0:
            print("DEMO NOT CONFIRMED")
            print(o0[-1500:] if rc0 != 0 else o1[-1500:])
            report["confirmed"] = False
        else:
            report["confirmed"] = True
        # existing tests: remove the demo, compare before/after (no tags = pinned suite)
        os.remove(os.path.join(place, demo["file"]))
        with_p = pkg_results(wt, touched_pkgs)
        sh(["git", "checkout", "--", "."], cwd=wt)
        without_p = pkg_results(wt, touched_pkgs)
        # Without the slicelabels tag many test binaries die at a nondeterministic point, so only the
        # pinned baseline tests (stable_pass in BASELINE.json) are a reliable before/after comparison.
        base = BASE
        broken = sorted(t for t in base if t.split("::")[0] in touched_pkgs and with_p.get(t) != "pass")
        report["ran"]["unpinned_differences"] = sorted(t for t, a in without_p.items() if a == "pass" and with_p.get(t) != "pass" and t not in base)[:20]
        report["ran"]["existing_tests"] = {"packages": touched_pkgs, "pass_without": sum(1 for a in without_p.values() if a == "pass"),
                                           "pass_with": sum(1 for a in with_p.values() if a == "pass"), "broken_by_patch": broken}
        print("existing tests: %d pass without, %d with, broken: %s" % (
            report["ran"]["existing_tests"]["pass_without"], report["ran"]["existing_tests"]["pass_with"], broken[:5]))
        if broken:
            report["confirmed"] = False
    # run our checks against /repo with the patch applied
    # the evidence files must describe runs on the unchanged tree: keep them aside while the patched tree is checked
    saved_ev = {}
    for c in checks:
        ep = "/verif/evidence/%s.json" % c
        if os.path.exists(ep):
            saved_ev[ep] = open(ep).read()
    rc, o = sh(["git", "-C", "/repo", "apply", patch])
    try:
        for c in checks:
            for tier in (["quick", "thorough"] if thorough else ["quick"]):
                t0 = time.time()
                rc, o = sh(["./verif", "run", c, "--tier", tier], cwd="/verif", timeout=7200)
                line = [l for l in o.splitlines() if re.match(r"^(VIOLATION|OK|INCONCLUSIVE|VERIF-VIOLATION)", l)]
                report["ran"]["check_%s_%s" % (c, tier)] = {"exit": rc, "wall_s": round(time.time() - t0, 1), "lines": [l[:400] for l in line[:4]]}
                print("check %s %s: exit %d (%.0fs) %s" % (c, tier, rc, time.time() - t0, (line[0][:200] if line else "")))
                if rc == 1:
                    break
    finally:
        sh(["git", "-C", "/repo", "checkout", "--", "."])
        for ep, txt in saved_ev.items():
            with open(ep, "w") as f:
                f.write(txt)
        rc, o = sh(["git", "-C", "/repo", "status", "--porcelain"])
        if o.strip():
            print("WARNING /repo not clean after revert:", o)
    dst = "/verif/seeded/" + pid + ("-r4" if round4 else "-r3" if round3 else "-r2" if round2 else "")
    os.makedirs(dst, exist_ok=True)
    shutil.copy(patch, dst + "/patch.diff")
    shutil.copy(os.path.join(out, demo["file"]), os.path.join(dst, demo["file"]))
    notes = [a.split("=", 1)[1] for a in sys.argv if a.startswith("--note=")]
    prev = {}
    if os.path.exists(dst + "/meta.json"):
        try:
            prev = json.load(open(dst + "/meta.json")).get("evaluation", {})
        except Exception:
            prev = {}
    if skip_confirm and prev:
        # keep the confirmation results of the earlier full evaluation
        for k, v in prev.get("ran", {}).items():
            report["ran"].setdefault(k, v)
        report["confirmed"] = prev.get("confirmed")
    report["history"] = prev.get("history", []) + notes
    meta["evaluation"] = report
    with open(dst + "/meta.json", "w") as f:
        json.dump(meta, f, indent=1)
    shutil.rmtree("/verif/replays", ignore_errors=True)
    return 0


if __name__ == "__main__":
    sys.exit(main())
