#!/usr/bin/env python3
"""Regenerates DESIGN.md section 13 from /verif/seeded/*/meta.json."""
import glob, json, re
rows=[]
caught=missed=0
for p in sorted(glob.glob('/verif/seeded/C*/meta.json')):
    m=json.load(open(p)); e=m.get('evaluation',{}); pid=p.split('/')[-2]
    ran=e.get('ran',{})
    res=[]
    for k,v in sorted(ran.items()):
        if k.startswith('check_'):
            _,c,tier=k.split('_')
            res.append('%s %s: %s'%(c,tier,{0:'missed',1:'**caught**',2:'inconclusive'}.get(v.get('exit'),'?')))
    is_caught=any(v.get('exit')==1 for k,v in ran.items() if k.startswith('check_'))
    caught+=is_caught; missed+=(not is_caught)
    hist=' '.join(e.get('history',[]))
    conf='yes' if e.get('confirmed') else 'NO'
    rows.append('| %s | %s | %s | %s | %s | %s |'%(pid,(m.get('summary') or '').replace('|','\\|'),(m.get('needs_to_manifest') or '').replace('|','\\|')[:260],conf,'; '.join(res),hist.replace('|','\\|')))
txt='''## 13. Seeded changes from independent sub-agents

One fresh sub-agent per property was given only the property text and its own scratch git worktree of
/repo (under /tmp, nothing from /verif) and asked for a change that breaks the property while still
compiling and passing the existing tests, needing something specific to manifest, with a demonstration
that fails with the change and passes without it. Each change was confirmed by `seedeval.py` (the
demonstration fails with / passes without the patch in a clean worktree; the pinned tests of the touched
packages still pass), then applied to /repo with `git apply`, the registered check run, and /repo
reverted (`git checkout -- .`). Kept under `/verif/seeded/<id>/` (patch.diff, demonstration, meta.json
with what was run). "History" records what was strengthened when a change was first missed; the
result columns show the state after strengthening.

Confirmed changes: %d, caught by the property's check: %d, not caught: %d.

| Prop | Seeded change | Needs to manifest | Confirmed | Check result | History |
|---|---|---|---|---|---|
%s
''' % (len(rows),caught,missed,'\n'.join(rows))
s=open('/verif/DESIGN.md').read()
i=s.index('## 13. Seeded changes from independent sub-agents')
s=s[:i]+txt
open('/verif/DESIGN.md','w').write(s)
print(len(rows),caught,missed)
