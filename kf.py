#!/usr/bin/env python3
"""helper: kf.py add <property> <signature> <status> <commit|-> <what> [input]  — maintains known_findings.json (never used at check time)"""
import json,sys
p='/verif/known_findings.json'
d=json.load(open(p))
prop,sig,status,commit,what=sys.argv[2:7]
inp=sys.argv[7] if len(sys.argv)>7 else ""
d['findings']=[f for f in d['findings'] if not (f['property']==prop and f['signature']==sig)]
e={"property":prop,"signature":sig,"status":status}
if status=="fixed":
    e["commit"]=commit
    e["line"]="fixed: property=%s %s %s"%(prop,commit,what)
else:
    e["line"]="KNOWN-FINDING: property=%s %s %s"%(prop,sig,what)
if inp: e["input"]=inp
d['findings'].append(e)
d['findings'].sort(key=lambda f:(f['property'],f['signature']))
json.dump(d,open(p,'w'),indent=1)
